module verifweave

go 1.20
