// weave is the build-time source-to-source instrumenter of the woven build
// variant (B2).  For every listed file of the repository it can
//
//	(a) insert a call verifrt.Y(site) before every statement of every
//	    function body (statement-level preemption points),
//	(b) turn `go f(x)` into { f0 := f; a0 := x; verifrt.Go(site, func() { f0(a0) }) }
//	    so that spawned goroutines get a deterministic identity (arguments are
//	    still evaluated at `go` time),
//	(c) redirect the import "sync" to verifsim/simsync,
//	(d) redirect the import "os" to verifsim/simos.
//
// The result is written next to a JSON description that the runner merges
// into the go command's -overlay file; nothing is written under the
// repository.  A construct the tool cannot rewrite faithfully is an error
// (exit 2), never a guess.
package main

import (
	"bytes"
	"encoding/json"
	"flag"
	"fmt"
	"go/ast"
	"go/format"
	"go/parser"
	"go/token"
	"os"
	"path/filepath"
	"strconv"
	"strings"
)

type fileSpec struct {
	Path   string `json:"path"` // relative to the repository root
	Yields bool   `json:"yields"`
	Go     bool   `json:"go"`
	Sync   bool   `json:"sync"`
	OS     bool   `json:"os"`
	// Calls redirects calls of a package-level function (written pkg.Func in
	// the source) to an identifier the harness defines in the same package: a
	// seam for calls that would leave the simulation (a real socket dial).  The
	// tool fails if a listed call does not occur.
	Calls map[string]string `json:"calls,omitempty"`
	// Types redirects a qualified type name (written pkg.Type in the source,
	// e.g. in a type assertion) to pkg.Type of a simulation package:
	// "net.TCPConn": "verifsim/simnet.Conn".  Code that asks whether a
	// connection is a real TCP socket (to set a socket option) then meets the
	// simulated socket instead of silently skipping the branch.  Optional: no
	// occurrence is not an error.
	Types map[string]string `json:"types,omitempty"`
}

type site struct {
	ID   int    `json:"id"`
	File string `json:"file"`
	Line int    `json:"line"`
	Kind string `json:"kind"`
}

var (
	sites  []site
	nextID = 1
)

func fail(format string, a ...interface{}) {
	fmt.Fprintf(os.Stderr, "weave: "+format+"\n", a...)
	os.Exit(2)
}

func main() {
	repo := flag.String("repo", "/repo", "repository root")
	out := flag.String("out", "", "output directory")
	spec := flag.String("spec", "", "JSON list of file specs")
	flag.Parse()
	var specs []fileSpec
	b, err := os.ReadFile(*spec)
	if err != nil {
		fail("%v", err)
	}
	if err := json.Unmarshal(b, &specs); err != nil {
		fail("%v", err)
	}
	replace := map[string]string{}
	for _, fs := range specs {
		src := filepath.Join(*repo, fs.Path)
		raw, err := os.ReadFile(src)
		if err != nil {
			fail("%v", err)
		}
		for _, line := range strings.Split(string(raw), "\n") {
			if strings.HasPrefix(line, "//go:") || strings.HasPrefix(line, "// +build") || strings.HasPrefix(line, "//line") {
				fail("%s carries a compiler directive (%q); refusing to print it without comments", fs.Path, line)
			}
		}
		woven, err := weaveFile(src, fs.Path, raw, fs)
		if err != nil {
			fail("%s: %v", fs.Path, err)
		}
		dst := filepath.Join(*out, fs.Path)
		if err := os.MkdirAll(filepath.Dir(dst), 0o755); err != nil {
			fail("%v", err)
		}
		if old, err := os.ReadFile(dst); err != nil || !bytes.Equal(old, woven) {
			if err := os.WriteFile(dst, woven, 0o644); err != nil {
				fail("%v", err)
			}
		}
		replace[src] = dst
	}
	js, _ := json.MarshalIndent(map[string]interface{}{"replace": replace, "sites": sites}, "", " ")
	if err := os.WriteFile(filepath.Join(*out, "weave.json"), js, 0o644); err != nil {
		fail("%v", err)
	}
}

type weaver struct {
	fset   *token.FileSet
	rel    string
	spec   fileSpec
	usedRT bool
	err    error
}

func weaveFile(src, rel string, raw []byte, fs fileSpec) ([]byte, error) {
	fset := token.NewFileSet()
	f, err := parser.ParseFile(fset, src, raw, 0) // comments dropped on purpose
	if err != nil {
		return nil, err
	}
	w := &weaver{fset: fset, rel: rel, spec: fs}
	// import redirection
	for _, imp := range f.Imports {
		p, _ := strconv.Unquote(imp.Path.Value)
		switch {
		case p == "sync" && fs.Sync:
			if imp.Name != nil && imp.Name.Name != "sync" {
				return nil, fmt.Errorf("renamed sync import")
			}
			imp.Path.Value = strconv.Quote("verifsim/simsync")
			imp.Name = ast.NewIdent("sync")
		case p == "os" && fs.OS:
			if imp.Name != nil && imp.Name.Name != "os" {
				return nil, fmt.Errorf("renamed os import")
			}
			imp.Path.Value = strconv.Quote("verifsim/simos")
			imp.Name = ast.NewIdent("os")
		case p == "verifsim/verifrt":
			return nil, fmt.Errorf("file already imports verifrt")
		}
	}
	if len(fs.Calls) > 0 {
		seen := map[string]int{}
		ast.Inspect(f, func(n ast.Node) bool {
			call, ok := n.(*ast.CallExpr)
			if !ok {
				return true
			}
			sel, ok := call.Fun.(*ast.SelectorExpr)
			if !ok {
				return true
			}
			x, ok := sel.X.(*ast.Ident)
			if !ok {
				return true
			}
			name := x.Name + "." + sel.Sel.Name
			if to, ok := fs.Calls[name]; ok {
				call.Fun = ast.NewIdent(to)
				seen[name]++
			}
			return true
		})
		for name := range fs.Calls {
			if seen[name] == 0 {
				return nil, fmt.Errorf("call %s not found: the seam it was to provide no longer exists", name)
			}
		}
	}
	typeImports := map[string]string{} // import path -> local name
	if len(fs.Types) > 0 {
		ast.Inspect(f, func(n ast.Node) bool {
			sel, ok := n.(*ast.SelectorExpr)
			if !ok {
				return true
			}
			x, ok := sel.X.(*ast.Ident)
			if !ok {
				return true
			}
			to, ok := fs.Types[x.Name+"."+sel.Sel.Name]
			if !ok {
				return true
			}
			dot := strings.LastIndex(to, ".")
			path, typ := to[:dot], to[dot+1:]
			local := "veriftype_" + filepath.Base(path)
			typeImports[path] = local
			sel.X = ast.NewIdent(local)
			sel.Sel = ast.NewIdent(typ)
			return true
		})
	}
	if fs.Yields || fs.Go {
		for _, d := range f.Decls {
			fd, ok := d.(*ast.FuncDecl)
			if !ok || fd.Body == nil {
				continue
			}
			w.block(fd.Body)
		}
		// function literals outside function declarations (package-level vars)
		for _, d := range f.Decls {
			if gd, ok := d.(*ast.GenDecl); ok {
				ast.Inspect(gd, func(n ast.Node) bool {
					if fl, ok := n.(*ast.FuncLit); ok {
						w.block(fl.Body)
						return false
					}
					return true
				})
			}
		}
	}
	if w.err != nil {
		return nil, w.err
	}
	if w.usedRT {
		// add the import as its own declaration right after the package clause
		imp := &ast.GenDecl{Tok: token.IMPORT, Specs: []ast.Spec{&ast.ImportSpec{Name: ast.NewIdent("verifrt"), Path: &ast.BasicLit{Kind: token.STRING, Value: strconv.Quote("verifsim/verifrt")}}}}
		f.Decls = append([]ast.Decl{imp}, f.Decls...)
	}
	for path, local := range typeImports {
		imp := &ast.GenDecl{Tok: token.IMPORT, Specs: []ast.Spec{&ast.ImportSpec{Name: ast.NewIdent(local), Path: &ast.BasicLit{Kind: token.STRING, Value: strconv.Quote(path)}}}}
		f.Decls = append([]ast.Decl{imp}, f.Decls...)
	}
	var buf bytes.Buffer
	buf.WriteString("// Code generated by /verif/weave from " + rel + "; DO NOT EDIT.\n")
	if err := format.Node(&buf, token.NewFileSet(), f); err != nil {
		return nil, err
	}
	return buf.Bytes(), nil
}

func (w *weaver) newSite(pos token.Pos, kind string) int {
	p := w.fset.Position(pos)
	id := nextID
	nextID++
	sites = append(sites, site{ID: id, File: w.rel, Line: p.Line, Kind: kind})
	return id
}

func (w *weaver) yieldStmt(pos token.Pos) ast.Stmt {
	w.usedRT = true
	id := w.newSite(pos, "stmt")
	return &ast.ExprStmt{X: &ast.CallExpr{
		Fun:  &ast.SelectorExpr{X: ast.NewIdent("verifrt"), Sel: ast.NewIdent("Y")},
		Args: []ast.Expr{&ast.BasicLit{Kind: token.INT, Value: strconv.Itoa(id)}},
	}}
}

// block rewrites the statements of one block in place.
func (w *weaver) block(b *ast.BlockStmt) {
	if b == nil {
		return
	}
	b.List = w.stmts(b.List)
}

func (w *weaver) stmts(list []ast.Stmt) []ast.Stmt {
	var out []ast.Stmt
	for _, s := range list {
		s = w.stmt(s)
		if w.spec.Yields {
			switch s.(type) {
			case *ast.LabeledStmt:
				// the yield goes inside the labelled statement's own position:
				// keep the label attached to its statement
				out = append(out, s)
				continue
			case *ast.DeclStmt, *ast.EmptyStmt:
				out = append(out, s)
				continue
			}
			out = append(out, w.yieldStmt(s.Pos()))
		}
		out = append(out, s)
	}
	return out
}

// stmt descends into nested blocks and rewrites go statements.
func (w *weaver) stmt(s ast.Stmt) ast.Stmt {
	switch n := s.(type) {
	case *ast.BlockStmt:
		w.block(n)
	case *ast.IfStmt:
		w.exprFuncLits(n.Cond)
		if n.Init != nil {
			w.simpleFuncLits(n.Init)
		}
		w.block(n.Body)
		if n.Else != nil {
			n.Else = w.stmt(n.Else)
		}
	case *ast.ForStmt:
		w.block(n.Body)
	case *ast.RangeStmt:
		w.block(n.Body)
	case *ast.SwitchStmt:
		w.clauses(n.Body)
	case *ast.TypeSwitchStmt:
		w.clauses(n.Body)
	case *ast.SelectStmt:
		w.clauses(n.Body)
	case *ast.LabeledStmt:
		n.Stmt = w.stmt(n.Stmt)
	case *ast.GoStmt:
		if w.spec.Go {
			return w.goStmt(n)
		}
		w.exprFuncLits(n.Call)
	case *ast.DeferStmt:
		w.exprFuncLits(n.Call)
	case *ast.ExprStmt:
		w.exprFuncLits(n.X)
	case *ast.AssignStmt:
		for _, e := range n.Rhs {
			w.exprFuncLits(e)
		}
	case *ast.ReturnStmt:
		for _, e := range n.Results {
			w.exprFuncLits(e)
		}
	case *ast.DeclStmt:
		ast.Inspect(n, func(x ast.Node) bool {
			if fl, ok := x.(*ast.FuncLit); ok {
				w.block(fl.Body)
				return false
			}
			return true
		})
	case *ast.SendStmt:
		w.exprFuncLits(n.Value)
	}
	return s
}

func (w *weaver) simpleFuncLits(s ast.Stmt) {
	ast.Inspect(s, func(x ast.Node) bool {
		if fl, ok := x.(*ast.FuncLit); ok {
			w.block(fl.Body)
			return false
		}
		return true
	})
}

// exprFuncLits weaves the bodies of function literals inside an expression.
func (w *weaver) exprFuncLits(e ast.Expr) {
	if e == nil {
		return
	}
	ast.Inspect(e, func(x ast.Node) bool {
		if fl, ok := x.(*ast.FuncLit); ok {
			w.block(fl.Body)
			return false
		}
		return true
	})
}

// clauses handles the bodies of switch / select statements, which hold
// clauses, not statements: yields go inside each clause.
func (w *weaver) clauses(b *ast.BlockStmt) {
	for _, c := range b.List {
		switch cc := c.(type) {
		case *ast.CaseClause:
			cc.Body = w.stmts(cc.Body)
		case *ast.CommClause:
			cc.Body = w.stmts(cc.Body)
		}
	}
}

// goStmt turns `go f(a, b)` into
//
//	{ f0 := f; a0 := a; a1 := b; verifrt.Go(site, func() { f0(a0, a1) }) }
func (w *weaver) goStmt(g *ast.GoStmt) ast.Stmt {
	w.usedRT = true
	call := g.Call
	if fl, ok := call.Fun.(*ast.FuncLit); ok {
		w.block(fl.Body)
	}
	for _, a := range call.Args {
		w.exprFuncLits(a)
	}
	id := w.newSite(g.Pos(), "go")
	var pre []ast.Stmt
	fn := ast.NewIdent("verifF0")
	pre = append(pre, &ast.AssignStmt{Lhs: []ast.Expr{fn}, Tok: token.DEFINE, Rhs: []ast.Expr{call.Fun}})
	var args []ast.Expr
	for i, a := range call.Args {
		v := ast.NewIdent("verifA" + strconv.Itoa(i))
		pre = append(pre, &ast.AssignStmt{Lhs: []ast.Expr{v}, Tok: token.DEFINE, Rhs: []ast.Expr{a}})
		args = append(args, v)
	}
	inner := &ast.CallExpr{Fun: fn, Args: args, Ellipsis: call.Ellipsis}
	if call.Ellipsis != token.NoPos {
		inner.Ellipsis = token.Pos(1)
	}
	wrapped := &ast.ExprStmt{X: &ast.CallExpr{
		Fun: &ast.SelectorExpr{X: ast.NewIdent("verifrt"), Sel: ast.NewIdent("Go")},
		Args: []ast.Expr{
			&ast.BasicLit{Kind: token.INT, Value: strconv.Itoa(id)},
			&ast.FuncLit{Type: &ast.FuncType{Params: &ast.FieldList{}}, Body: &ast.BlockStmt{List: []ast.Stmt{&ast.ExprStmt{X: inner}}}},
		},
	}}
	return &ast.BlockStmt{List: append(pre, wrapped)}
}
