#!/bin/bash
# usage: mutant.sh <patch-file|-> <PROP> [<PROP>...]   (patch on stdin when '-')
# Applies a patch to a scratch copy of /repo's HEAD, confirms it builds, and runs the quick checks against it
# with VERIF_REPO pointing at the scratch copy.  The scratch copy is removed afterwards.
set -u
V=$(cd "$(dirname "$0")/.." && pwd)
PATCH=$1; shift
case "$PATCH" in -|/*) ;; *) PATCH="$PWD/$PATCH";; esac
D=$(mktemp -d /var/tmp/verif-mut-XXXXXX)
trap 'rm -rf "$D" "$V"/build/$(python3 -c "import hashlib,sys;print(hashlib.sha1(sys.argv[1].encode()).hexdigest()[:10])" "$D/repo")' EXIT
git -C /repo archive --format=tar --prefix=repo/ HEAD | tar -x -C "$D"
cd "$D/repo"
if [ "$PATCH" = "-" ]; then patch -p1 -s; else patch -p1 -s < "$PATCH"; fi || { echo "PATCH FAILED"; exit 2; }
export GOFLAGS=-mod=mod GOPROXY=off GOSUMDB=off
go build ./... || { echo "MUTANT DOES NOT BUILD"; exit 2; }
if [ "${MUT_TESTS:-0}" = "1" ]; then go test -vet=off -count=1 ./... 2>&1 | grep -v "no test files" | grep -v "^ok" ; fi
cd "$V"
rc=0
for P in "$@"; do
  VERIF_REPO="$D/repo" VERIF_BUDGET_S=${MUT_BUDGET:-20} VERIF_EVIDENCE_DIR="$D/evidence" python3 verif.py check $P 2>&1 | grep -a -E "^C[0-9]+ tier|VIOLATION|class=|HARNESS|KNOWN" | head -8
done
