#!/bin/bash
# usage: tools_diffrun.sh PROP NRUNS  -- find a run whose event log differs between two processes and diff the traces
set -e
export GOFLAGS=-mod=mod GOPROXY=off GOSUMDB=off GOTOOLCHAIN=local GODEBUG=asynctimerchan=0
P=$1; N=${2:-300}; E=${3:-wire}
B=/verif/build/default
cd $B
for i in 1 2; do
 VERIF_PROP=$P VERIF_SEED=7 VERIF_MAXRUNS=$N VERIF_BUDGET_S=600 VERIF_RUNLOG=1 VERIF_OUT=$B/dr$i.json VERIF_KNOWN=/nonexistent VERIF_MAXVIOL=100000 VERIF_SHRINK_TRIES=0 VERIF_REPLAY_DIR=$B/dr-replays ./$E.test -test.run '^TestVerif$' -test.timeout 0 >/dev/null 2>&1 &
done
wait
python3 - <<PY
import json
a=json.load(open('$B/dr1.json'))['runlog']; b=json.load(open('$B/dr2.json'))['runlog']
d=[(x,y) for x,y in zip(a,b) if x!=y]
print(len(d),'differing runs of',len(a)); print(d[:5])
PY
