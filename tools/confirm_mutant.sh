#!/bin/bash
# usage: confirm_mutant.sh <PROP> <name> <agent-worktree> [<check> ...]
# Independently confirms a seeded change produced by a sub-agent:
#   builds, existing suite passes with it, the demonstration fails with it and passes without it,
# then runs the named checks (default: the property's own) against a scratch copy carrying the change,
# and stores everything under /verif/seeded/<PROP>-<name>/.
set -u
PROP=$1; NAME=$2; WT=$3; shift 3
CHECKS=${*:-$PROP}
export GOFLAGS=-mod=mod GOPROXY=off GOSUMDB=off
OUT=/verif/seeded/$PROP-$NAME
mkdir -p $OUT
cp $WT/MUTATION/patch.diff $OUT/patch.diff
cp $WT/MUTATION/README.md $OUT/README.agent.md 2>/dev/null
# the demonstration: untracked test files the agent left in the tree (outside MUTATION/)
DEMOS=$(git -C $WT status --porcelain -uall | awk '$1=="??"{print $2}' | grep '_test.go$' | grep -v '^MUTATION/')
D=$(mktemp -d /var/tmp/verif-confirm-XXXXXX)
trap 'rm -rf "$D" /verif/build/$(python3 -c "import hashlib,sys;print(hashlib.sha1(sys.argv[1].encode()).hexdigest()[:10])" "$D/repo")' EXIT
git -C /repo archive --format=tar --prefix=repo/ HEAD | tar -x -C "$D"
cd $D/repo
git init -q . && git add -A >/dev/null && git -c user.email=x -c user.name=x commit -qm base >/dev/null
git apply $OUT/patch.diff || { echo "CONFIRM: patch does not apply to /repo HEAD"; exit 2; }
go build ./... || { echo "CONFIRM: does not build"; exit 2; }
SUITE=$(go test -vet=off -count=1 ./... 2>&1 | grep -v "no test files")
if echo "$SUITE" | grep -q "^FAIL\|^---  *FAIL\|panic:"; then echo "CONFIRM: existing suite FAILS with the change"; echo "$SUITE" | tail; SUITE_OK=false; else SUITE_OK=true; fi
DEMO_WITH=unknown; DEMO_WITHOUT=unknown
for f in $DEMOS; do mkdir -p $(dirname $f); cp $WT/$f $f; mkdir -p $OUT/demo/$(dirname $f); cp $WT/$f $OUT/demo/$f; done
PKGS=$(for f in $DEMOS; do echo ./$(dirname $f)/; done | sort -u)
RUNPAT=$(grep -ho '^func Test[A-Za-z0-9_]*' $DEMOS 2>/dev/null | sed 's/func //' | paste -sd'|')
if [ -n "$PKGS" ]; then
  ${MUT_GO:-go} test ${MUT_TAGS:+-tags $MUT_TAGS} -vet=off -count=1 ${MUT_FLAGS:-} -timeout ${MUT_TIMEOUT:-10m} -run "^($RUNPAT)\$" $PKGS > $OUT/demo_with_change.log 2>&1 && DEMO_WITH=pass || DEMO_WITH=fail
  git apply -R $OUT/patch.diff
  ${MUT_GO:-go} test ${MUT_TAGS:+-tags $MUT_TAGS} -vet=off -count=1 ${MUT_FLAGS:-} -timeout ${MUT_TIMEOUT:-10m} -run "^($RUNPAT)\$" $PKGS > $OUT/demo_without_change.log 2>&1 && DEMO_WITHOUT=pass || DEMO_WITHOUT=fail
  git apply $OUT/patch.diff
fi
for f in $DEMOS; do rm -f $f; done
echo "CONFIRM $PROP-$NAME: suite_ok=$SUITE_OK demo_with_change=$DEMO_WITH demo_without_change=$DEMO_WITHOUT"
cd /verif
RESULTS=""
for P in $CHECKS; do
  LOG=$OUT/check_$P.log
  VERIF_REPO="$D/repo" VERIF_BUDGET_S=${MUT_BUDGET:-40} VERIF_EVIDENCE_DIR="$D/evidence" python3 verif.py check $P > $LOG 2>&1
  RC=$?
  CLS=$(grep -a -m1 "class=" $LOG | sed 's/.*class=//')
  echo "  check $P: exit $RC ${CLS:+class=$CLS}"
  RESULTS="$RESULTS{\"check\":\"$P\",\"exit\":$RC,\"class\":\"$(echo $CLS | sed 's/"/\\"/g')\"},"
  # keep one replay file as evidence of detection
  RP=$(grep -m1 "^VIOLATION" $LOG | sed 's/.*replay=//')
  [ -n "$RP" ] && [ -f "$RP" ] && cp "$RP" $OUT/detected_by_$P.replay.json
done
python3 - <<PY
import json
meta=dict(property="$PROP", name="$NAME", suite_passes_with_change=$( $SUITE_OK && echo True || echo False ),
  demo_with_change="$DEMO_WITH", demo_without_change="$DEMO_WITHOUT",
  demo_files="""$DEMOS""".split(), demo_run="go test -vet=off -count=1 -run '^($RUNPAT)\$' $(echo $PKGS)",
  checks=json.loads("[" + """$RESULTS""".rstrip(",") + "]"),
  ran="tools/confirm_mutant.sh $PROP $NAME <agent worktree> $CHECKS (scratch copy of /repo HEAD $(git -C /repo log -1 --format=%h) with patch.diff applied; checks run with VERIF_REPO, budget ${MUT_BUDGET:-40}s per worker)")
json.dump(meta, open("$OUT/meta.json","w"), indent=1)
PY
