#!/usr/bin/env python3
"""Print the source of the blocks that coverage/<name>.txt lists as never executed for one file."""
import sys, os
name, target = sys.argv[1], sys.argv[2]
repo = os.environ.get("VERIF_REPO", "/repo")
V = os.path.dirname(os.path.dirname(os.path.abspath(__file__)))
for line in open(os.path.join(V, "coverage", name + ".txt")):
    if line.startswith(target + ":"):
        src = open(os.path.join(repo, target)).read().split("\n")
        for blk in line.split(":", 1)[1].split():
            a, b = blk.split(",")
            l1, l2 = int(a.split(".")[0]), int(b.split(".")[0])
            print("--- %s" % blk)
            for i in range(l1, min(l2, l1 + 6) + 1):
                print("%4d  %s" % (i, src[i - 1]))
