#!/usr/bin/env python3
"""Regenerate the table of seeded changes in DESIGN.md (between the markers) from seeded/*/meta.json."""
import glob, json, os, re
V = os.path.dirname(os.path.dirname(os.path.abspath(__file__)))
rows = []
for d in sorted(glob.glob(os.path.join(V, "seeded", "*"))):
    mp = os.path.join(d, "meta.json")
    if not os.path.exists(mp):
        continue
    m = json.load(open(mp))
    name = os.path.basename(d)
    readme = os.path.join(d, "README.agent.md")
    what = m.get("summary") or ""
    caught = ", ".join("%s -> `%s`" % (c["check"], c["class"]) for c in m["checks"] if c["exit"] == 1) or "-"
    missed = ", ".join(c["check"] for c in m["checks"] if c["exit"] != 1)
    first = "missed at first, caught after strengthening" if m.get("note", "").startswith("MISSED") else "caught as built"
    rows.append("| `%s` | %s | %s | %s%s |" % (name, what, first, caught, (" (not by: %s)" % missed) if missed else ""))
table = ["| seeded change | what it does / what it needs | detection | caught by (violation class) |", "|---|---|---|---|"] + rows
p = os.path.join(V, "DESIGN.md")
s = open(p).read()
a, b = "<!-- seeded-table-begin -->", "<!-- seeded-table-end -->"
block = a + "\n" + "\n".join(table) + "\n" + b
if a in s:
    s = re.sub(re.escape(a) + ".*?" + re.escape(b), lambda _: block, s, flags=re.S)
else:
    s += "\n" + block + "\n"
open(p, "w").write(s)
print(len(rows), "rows")
