#!/bin/bash
# usage: rerun_seeded.sh [<seeded-id>...]      (default: every directory under /verif/seeded)
# Sensitivity regression of the machinery: applies every kept seeded change to a
# scratch copy of /repo's HEAD and runs the quick check(s) recorded in its
# meta.json as catching it.  Prints one line per change; exit 1 if a change that
# was caught before is now missed.  Budget per check: MUT_BUDGET seconds (default 30).
set -u
V=$(cd "$(dirname "$0")/.." && pwd)
cd "$V"
IDS=("$@")
if [ ${#IDS[@]} -eq 0 ]; then IDS=($(ls seeded | grep -v '^_')); fi
missed=0
for id in "${IDS[@]}"; do
  checks=$(python3 -c "
import json,sys
m=json.load(open('$V/seeded/$id/meta.json'))
c=[x['check'] for x in m['checks'] if x['exit']==1]
print(' '.join(c[:1]))")
  [ -z "$checks" ] && { echo "$id: no catching check recorded"; continue; }
  # a change may need a scenario that is not scheduled in the quick tier: meta.json names the environment
  envs=$(python3 -c "
import json
m=json.load(open('$V/seeded/$id/meta.json'))
print(' '.join('%s=%s'%(k,v) for k,v in m.get('env',{}).items()))")
  out=$(env MUT_BUDGET=${MUT_BUDGET:-30} $envs tools/mutant.sh seeded/$id/patch.diff $checks 2>&1)
  cls=$(echo "$out" | grep -a -o "class=[^ ]*" | head -1)
  if echo "$out" | grep -a -q "VIOLATION"; then echo "$id: caught by $checks ($cls)"; else echo "$id: MISSED by $checks"; echo "$out" | tail -3; missed=1; fi
done
exit $missed
