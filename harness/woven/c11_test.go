package wire

import (
	"fmt"
	"strings"
	"time"

	"github.com/anishathalye/porcupine"

	"gitlab.com/yawning/obfs4.git/common/replayfilter"

	"verifsim/harness"
	"verifsim/verifrt"
)

func init() { register(&harness.Prop{ID: "C11", Run: runC11, Variant: "B2"}) }

const rfCapacity = 102400

// rfModel is the executable reference: an insertion-ordered set with expiry.
type rfEntry struct {
	v string
	t time.Duration
}

type rfModel struct {
	ttl time.Duration
	s   []rfEntry
}

// testAndSet follows the property statement: discard everything when the
// clock is before the oldest entry; forget entries that are ttl or more old;
// when full evict the oldest; answer whether v is (still) remembered and
// remember it otherwise.
func (m *rfModel) testAndSet(now time.Duration, v string) bool {
	if len(m.s) > 0 && now < m.s[0].t {
		m.s = nil
	}
	if m.ttl > 0 {
		k := 0
		for k < len(m.s) && now-m.s[k].t >= m.ttl {
			k++
		}
		m.s = m.s[k:]
	}
	if len(m.s) >= rfCapacity {
		m.s = m.s[1:]
	}
	for _, e := range m.s {
		if e.v == v {
			return true
		}
	}
	m.s = append(append([]rfEntry(nil), m.s...), rfEntry{v, now})
	return false
}

func (m *rfModel) clone() *rfModel { return &rfModel{ttl: m.ttl, s: append([]rfEntry(nil), m.s...)} }

func (m *rfModel) key() string {
	var b strings.Builder
	for _, e := range m.s {
		fmt.Fprintf(&b, "%s@%d;", e.v, e.t)
	}
	return b.String()
}

var base0 = time.Date(2000, 1, 1, 0, 0, 0, 0, time.UTC)

func runC11(c *harness.Ctx) {
	switch c.T.Draw("part", 5) {
	case 0:
		runC11Sequential(c)
	case 1:
		runC11Capacity(c)
	case 4:
		runC11Bursts(c)
	default:
		runC11Concurrent(c)
	}
}

// runC11Bursts: many distinct values arrive close together, then nothing for a
// while, then probes - the histories of a bridge that sees a wave of clients
// and then a quiet period.  Everything is compared with the reference set.
func runC11Bursts(c *harness.Ctx) {
	t := c.T
	c.Info["part"] = "bursts"
	c.S.YieldOn = func(int) bool { return false } // one caller
	ttl := []time.Duration{3 * time.Hour, time.Second}[t.Draw("ttl", 2)]
	f, err := replayfilter.New(ttl)
	if err != nil {
		panic(err)
	}
	m := &rfModel{ttl: ttl}
	now := time.Duration(1 << 40)
	next := 0
	var hist []string
	step := func(dt time.Duration, v string, what string) bool {
		now += dt
		got := f.TestAndSet(base0.Add(now), []byte(v))
		want := m.testAndSet(now, v)
		if got != want {
			c.Violate("C11/answer-differs-from-model", "ttl %v, %v; then %s of %s at +%v: the filter answered seen=%v, the reference set (which held %d values) says %v", ttl, hist, what, v, dt, got, len(m.s), want)
			return false
		}
		return true
	}
	for phase, phases := 0, 1+t.Draw("phases", 3); phase < phases; phase++ {
		b := []int{1, 2, 63, 64, 65, 66, 100, 129, 300}[t.Draw("burst", 9)]
		if t.Draw("burstr", 3) == 2 {
			b = 1 + t.Draw("burstn", 400)
		}
		spacing := []time.Duration{0, time.Nanosecond, ttl / time.Duration(4*b+1)}[t.Draw("spacing", 3)]
		first := next
		for i := 0; i < b; i++ {
			if !step(spacing, fmt.Sprintf("w%d", next), "insertion") {
				return
			}
			next++
		}
		gap := []time.Duration{0, ttl / 2, ttl - 1, ttl, ttl + 1, 2 * ttl, ttl - spacing*time.Duration(b/2)}[t.Draw("gap", 7)]
		hist = append(hist, fmt.Sprintf("burst of %d (w%d..w%d, %v apart), quiet for %v", b, first, next-1, spacing, gap))
		for k, probes := 0, 1+t.Draw("probes", 5); k < probes; k++ {
			var i int
			switch t.Draw("probe", 6) {
			case 0:
				i = first
			case 1:
				i = next - 1
			case 2:
				i = first + 63
			case 3:
				i = first + 64
			case 4:
				i = first + 65
			default:
				i = t.Draw("proben", next)
			}
			if i >= next {
				i = next - 1
			}
			dt := time.Duration(0)
			if k == 0 {
				dt = gap
			}
			if !step(dt, fmt.Sprintf("w%d", i), "probe") {
				return
			}
			hist = append(hist, fmt.Sprintf("probe w%d", i))
		}
	}
	c.Info["history"] = hist
	c.Feature("bursts-and-quiet-periods")
	c.Reached, c.Nontrivial = true, true
	c.Case(strings.Join(hist, "; "))
}

func runC11Sequential(c *harness.Ctx) {
	t := c.T
	c.Info["part"] = "sequential"
	ttl := []time.Duration{3 * time.Hour, time.Second, time.Nanosecond * 10}[t.Draw("ttl", 3)]
	f, err := replayfilter.New(ttl)
	if err != nil {
		panic(err)
	}
	m := &rfModel{ttl: ttl}
	nvals := 2 + t.Draw("nvals", 5)
	maxOps := 24
	if c.Tier == "thorough" {
		maxOps = 60
	}
	n := 1 + t.Draw("nops", maxOps)
	now := time.Duration(1 << 40)
	var hist []string
	for i := 0; i < n; i++ {
		var dt time.Duration
		switch t.Draw("dt", 9) {
		case 0:
			dt = 0
		case 1:
			dt = 1
		case 2:
			dt = ttl / 3
		case 3:
			dt = ttl - 1
		case 4:
			dt = ttl
		case 5:
			dt = ttl + 1
		case 6:
			dt = 10 * ttl
		case 7:
			// jump back before the oldest remembered entry (a partial step back
			// is left undefined by the statement and is not generated)
			if len(m.s) > 0 {
				dt = m.s[0].t - now - time.Duration(1+t.Draw("back", 1000))
				c.Feature("clock-jump-backwards")
			}
		case 8:
			dt = time.Duration(t.Draw("dtr", int(ttl/time.Nanosecond%1000000000)+2))
		}
		now += dt
		v := fmt.Sprintf("v%d", t.Draw("val", nvals))
		got := f.TestAndSet(base0.Add(now), []byte(v))
		want := m.testAndSet(now, v)
		hist = append(hist, fmt.Sprintf("%+d:%s=%v", dt, v, got))
		if got != want {
			c.Violate("C11/answer-differs-from-model", "ttl %v, history (dt:value=answer) %v: the filter answered seen=%v, the reference set says %v", ttl, hist, got, want)
			return
		}
		if got {
			c.Feature("hit")
		}
	}
	c.Info["history"] = hist
	c.Reached, c.Nontrivial = true, n > 1
	c.Case(strings.Join(hist, " "))
}

func runC11Capacity(c *harness.Ctx) {
	t := c.T
	c.Info["part"] = "capacity"
	// statement-level yields are pointless here (one caller) and 100k+ operations are many
	c.S.YieldOn = func(int) bool { return false }
	f, _ := replayfilter.New(3 * time.Hour)
	k := 1 + t.Draw("over", 3)
	spread := t.Draw("spread", 2) == 1
	now := time.Duration(1 << 40)
	val := func(i int) []byte { return []byte(fmt.Sprintf("value-%d", i)) }
	for i := 0; i < rfCapacity+k; i++ {
		if spread {
			now += time.Nanosecond
		}
		if f.TestAndSet(base0.Add(now), val(i)) {
			c.Violate("C11/fresh-value-reported-seen", "distinct value #%d reported as seen", i)
			return
		}
	}
	// the newest and a middle value are still remembered, the oldest was evicted
	probe := []struct {
		i    int
		want bool
	}{{rfCapacity + k - 1, true}, {rfCapacity / 2, true}, {0, false}}
	p := probe[t.Draw("probe", len(probe))]
	if got := f.TestAndSet(base0.Add(now), val(p.i)); got != p.want {
		c.Violate("C11/capacity-eviction-order", "after inserting capacity+%d distinct values, value #%d is reported seen=%v (expected %v: oldest-first eviction)", k, p.i, got, p.want)
		return
	}
	c.Feature("capacity-overflow")
	c.Reached, c.Nontrivial = true, true
	c.Case(fmt.Sprintf("capacity+%d spread=%v probe#%d", k, spread, p.i))
}

type rfIn struct {
	now time.Duration
	v   string
}

func runC11Concurrent(c *harness.Ctx) {
	t := c.T
	c.Info["part"] = "concurrent"
	verifrt.Activate(c.S)
	c.AtEnd(verifrt.Deactivate)
	ttl := []time.Duration{3 * time.Hour, 10}[t.Draw("ttl", 2)]
	f, _ := replayfilter.New(ttl)
	_ = f
	nCallers := 2 + t.Draw("callers", 3)
	nvals := 1 + t.Draw("nvals", 3)
	sameTime := t.Draw("sametime", 2) == 1
	// "now" mode: the callers use TestAndSetNow (the entry point the obfs4
	// server uses) on the virtual clock, while the scheduler may let a little
	// time pass between any two statements (a stalled thread).  The clock is
	// monotone and the TTL is hours, so of all submissions of one value exactly
	// one may be told "new".
	useNow := t.Draw("usenow", 3) == 2
	if useNow {
		ttl = 3 * time.Hour
		f, _ = replayfilter.New(ttl)
		c.S.TimeSkip = 10
		c.S.SkipMax = time.Millisecond
		c.S.SkipBudget = 100 * time.Millisecond
		c.Feature("concurrent-TestAndSetNow")
	}
	var ops []porcupine.Operation
	done := 0
	base := time.Duration(1 << 40)
	newCount := map[string]int{}
	for i := 0; i < nCallers; i++ {
		i := i
		nOps := 1 + t.Draw("nops", 3)
		type plan struct {
			in rfIn
		}
		var plans []plan
		for j := 0; j < nOps; j++ {
			now := base
			if !sameTime {
				now += time.Duration(t.Draw("t", 30))
			}
			plans = append(plans, plan{rfIn{now, fmt.Sprintf("v%d", t.Draw("val", nvals))}})
		}
		c.S.Go(fmt.Sprintf("caller%d/main", i), func() {
			for _, p := range plans {
				call := int64(c.S.Seq())
				c.S.Log("invoke", fmt.Sprintf("caller%d %v", i, p.in))
				var out bool
				if useNow {
					out = f.TestAndSetNow([]byte(p.in.v))
				} else {
					out = f.TestAndSet(base0.Add(p.in.now), []byte(p.in.v))
				}
				c.S.Log("return", fmt.Sprintf("caller%d %v", i, out))
				ret := int64(c.S.Seq())
				ops = append(ops, porcupine.Operation{ClientId: i, Input: p.in, Call: call, Output: out, Return: ret})
				if !out {
					newCount[p.in.v]++
				}
			}
			done++
		})
	}
	c.S.Run(func() bool { return done == nCallers }, time.Minute)
	c.Reached = done == nCallers
	c.Nontrivial = true
	if done != nCallers {
		c.Violate("C11/callers-stuck", "only %d of %d concurrent callers returned (deadlock?)", done, nCallers)
		return
	}
	c.Info["ops"] = len(ops)
	if useNow {
		for v, n := range newCount {
			if n != 1 {
				c.Violate("C11/test-and-set-not-atomic", "%d concurrent TestAndSetNow submissions of value %s were told 'new' on a monotone clock within the TTL (exactly one may be)", n, v)
				return
			}
		}
		c.Feature("now-mode-exactly-one-new")
		return
	}
	if sameTime {
		// the clock did not move: of all submissions of one value exactly one is new
		for v, n := range newCount {
			if n != 1 {
				c.Violate("C11/test-and-set-not-atomic", "%d concurrent submissions of value %s at one timestamp were told 'new' (exactly one may be)", n, v)
				return
			}
		}
		c.Feature("same-timestamp-exactly-one-new")
	}
	model := porcupine.Model{
		Init: func() interface{} { return &rfModel{ttl: ttl} },
		Step: func(state, input, output interface{}) (bool, interface{}) {
			m := state.(*rfModel).clone()
			in := input.(rfIn)
			got := m.testAndSet(in.now, in.v)
			return got == output.(bool), m
		},
		Equal: func(a, b interface{}) bool { return a.(*rfModel).key() == b.(*rfModel).key() },
	}
	switch porcupine.CheckOperationsTimeout(model, ops, 20*time.Second) {
	case porcupine.Illegal:
		var d []string
		for _, o := range ops {
			d = append(d, fmt.Sprintf("caller%d[%d..%d] %v -> %v", o.ClientId, o.Call, o.Return, o.Input, o.Output))
		}
		c.Violate("C11/not-linearizable", "no sequential order of these concurrent TestAndSet calls explains their answers: %v", d)
	case porcupine.Unknown:
		c.Feature("porcupine-timeout-inconclusive")
	default:
		c.Feature("linearizable")
	}
}
