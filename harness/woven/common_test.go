// Engine "woven" (build variant B2): the listed repository files are passed
// through /verif/weave - a yield before every statement, go statements turned
// into named tasks, "sync" redirected to simsync - so that interleavings
// inside the code under test are scheduler decisions.
package woven

import (
	"io"
	"testing"

	"gitlab.com/yawning/obfs4.git/common/csrand"
	"gitlab.com/yawning/obfs4.git/transports"

	"verifsim/harness"
)

var props = map[string]*harness.Prop{}

func register(p *harness.Prop) {
	if p.Variant == "" {
		p.Variant = "B2"
	}
	props[p.ID] = p
}

var origCsrandReader = csrand.Reader

var env = &harness.Env{
	SetEntropy: func(r io.Reader) {
		if r == nil {
			csrand.Reader = origCsrandReader
		} else {
			csrand.Reader = r
		}
	},
}

func TestVerif(t *testing.T) {
	if err := transports.Init(); err != nil {
		t.Fatal(err)
	}
	harness.Main(t, env, props)
}
