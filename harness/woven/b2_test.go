// Files of the "woven" engine share package wire with harness/wire (the
// runner overlays both directories into one virtual package): every wire
// scenario can therefore also run on the woven build (B2), where the listed
// repository files carry a yield before every statement.
package wire

import (
	"encoding/json"
	"os"
	"sync"

	"verifsim/harness"
	"verifsim/verifrt"
)

// siteFile maps a yield site to the index of the woven file it is in (from the
// site table the weave tool wrote at build time; the runner passes its path).
var (
	siteFileOnce sync.Once
	siteFile     map[int]int
	wovenFiles   []string
)

func loadSites() {
	siteFile = map[int]int{}
	b, err := os.ReadFile(os.Getenv("VERIF_WEAVE_JSON"))
	if err != nil {
		return
	}
	var t struct {
		Sites []struct {
			ID   int    `json:"id"`
			File string `json:"file"`
		} `json:"sites"`
	}
	if json.Unmarshal(b, &t) != nil {
		return
	}
	idx := map[string]int{}
	for _, s := range t.Sites {
		i, ok := idx[s.File]
		if !ok {
			i = len(wovenFiles)
			idx[s.File] = i
			wovenFiles = append(wovenFiles, s.File)
		}
		siteFile[s.ID] = i
	}
}

func init() {
	wovenBuild = true
	activateWoven = func(c *harness.Ctx, label string) {
		siteFileOnce.Do(loadSites)
		// swarm: the density of live preemption points varies per run ...
		k := []int{1, 1, 3, 8, 32}[c.T.Draw(label+".yield-density", 5)]
		salt := c.T.Draw(label+".yield-salt", 1<<16)
		// ... and so does their focus: in half of the runs every site of one
		// woven file is live and the rest are sparse, which concentrates the
		// interleavings on that component (a two-statement window in a small
		// file is otherwise a small fraction of all preemption points)
		focus := -1
		if len(wovenFiles) > 0 && c.T.Draw(label+".yield-focus", 2) == 1 {
			focus = c.T.Draw(label+".yield-focus-file", len(wovenFiles))
			if k < 8 {
				k = 8
			}
			c.Info["woven_yield_focus"] = wovenFiles[focus]
		}
		c.S.YieldOn = func(site int) bool {
			if focus >= 0 && siteFile[site] == focus {
				return true
			}
			x := uint32(site)*2654435761 + uint32(salt)*40503
			x ^= x >> 15
			return int(x%uint32(k)) == 0
		}
		c.Info["woven_yield_one_in"] = k
		verifrt.Activate(c.S)
	}
	deactivateWoven = func() { verifrt.Deactivate() }
}
