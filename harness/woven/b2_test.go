// Files of the "woven" engine share package wire with harness/wire (the
// runner overlays both directories into one virtual package): every wire
// scenario can therefore also run on the woven build (B2), where the listed
// repository files carry a yield before every statement.
package wire

import (
	"verifsim/harness"
	"verifsim/verifrt"
)

func init() {
	wovenBuild = true
	activateWoven = func(c *harness.Ctx, label string) {
		// swarm: the density of live preemption points varies per run
		k := []int{1, 1, 3, 8, 32}[c.T.Draw(label+".yield-density", 5)]
		salt := c.T.Draw(label+".yield-salt", 1<<16)
		c.S.YieldOn = func(site int) bool {
			x := uint32(site)*2654435761 + uint32(salt)*40503
			x ^= x >> 15
			return int(x%uint32(k)) == 0
		}
		c.Info["woven_yield_one_in"] = k
		verifrt.Activate(c.S)
	}
	deactivateWoven = func() { verifrt.Deactivate() }
}
