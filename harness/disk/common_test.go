// Engine "disk" (build variant B2 with the os -> simos import shim): the
// files of the repository that touch the file system run on the simulated
// disk, so every start-up can be killed at every disk step.
package disk

import (
	"io"
	mrand "math/rand"
	"testing"

	"gitlab.com/yawning/obfs4.git/common/csrand"
	"gitlab.com/yawning/obfs4.git/transports"

	"verifsim/harness"
	"verifsim/verifrt"
)

var props = map[string]*harness.Prop{}

func register(p *harness.Prop) {
	if p.Variant == "" {
		p.Variant = "B2(os->simos)"
	}
	props[p.ID] = p
}

var origCsrandReader = csrand.Reader

var env = &harness.Env{
	SetEntropy: func(r io.Reader) {
		if r == nil {
			csrand.Reader = origCsrandReader
		} else {
			csrand.Reader = r
		}
	},
}

// steerPads: see harness.SteeredSource (ScrambleSuit handshake padding
// 0..1308 for UniformDH, 0..1388 for the ticket handshake).
func steerPads(c *harness.Ctx, ranges ...int) {
	if c.T.Draw("steer-rand", 3) == 0 {
		return
	}
	src := harness.NewSteeredSource(csrand.Bytes, ranges...)
	orig := csrand.Rand
	csrand.Rand = mrand.New(src)
	c.AtEnd(func() {
		csrand.Rand = orig
		c.S.Count("fault.steered-random-draw", src.Hits())
	})
}

// maybeYields switches the woven statement-level yields of the ScrambleSuit
// client on for a tape-chosen fraction of the runs (swarm: off, or one site
// in 32 / 8 / 3 / every site).
func maybeYields(c *harness.Ctx) {
	k := []int{0, 0, 32, 8, 3, 1}[c.T.Draw("b2.yield-density", 6)]
	c.Info["woven_yield_one_in"] = k
	if k == 0 {
		return
	}
	salt := c.T.Draw("b2.yield-salt", 1<<16)
	c.S.YieldOn = func(site int) bool {
		x := uint32(site)*2654435761 + uint32(salt)*40503
		x ^= x >> 15
		return int(x%uint32(k)) == 0
	}
	c.S.MaxSteps *= 5
	verifrt.Activate(c.S)
	c.AtEnd(verifrt.Deactivate)
	c.Feature("woven-yields-active")
}

func TestVerif(t *testing.T) {
	if err := transports.Init(); err != nil {
		t.Fatal(err)
	}
	harness.Main(t, env, props)
}
