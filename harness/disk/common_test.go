// Engine "disk" (build variant B2 with the os -> simos import shim): the
// files of the repository that touch the file system run on the simulated
// disk, so every start-up can be killed at every disk step.
package disk

import (
	"io"
	"testing"

	"gitlab.com/yawning/obfs4.git/common/csrand"
	"gitlab.com/yawning/obfs4.git/transports"

	"verifsim/harness"
)

var props = map[string]*harness.Prop{}

func register(p *harness.Prop) {
	if p.Variant == "" {
		p.Variant = "B2(os->simos)"
	}
	props[p.ID] = p
}

var origCsrandReader = csrand.Reader

var env = &harness.Env{
	SetEntropy: func(r io.Reader) {
		if r == nil {
			csrand.Reader = origCsrandReader
		} else {
			csrand.Reader = r
		}
	},
}

func TestVerif(t *testing.T) {
	if err := transports.Init(); err != nil {
		t.Fatal(err)
	}
	harness.Main(t, env, props)
}
