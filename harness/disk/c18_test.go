package disk

import (
	"encoding/hex"
	"fmt"
	"net"
	"strings"
	"syscall"
	"time"

	pt "gitlab.torproject.org/tpo/anti-censorship/pluggable-transports/goptlib"

	"gitlab.com/yawning/obfs4.git/transports"
	"gitlab.com/yawning/obfs4.git/transports/base"

	"verifsim/harness"
	"verifsim/ref/obfs4ref"
	"verifsim/simos"
)

func init() { register(&harness.Prop{ID: "C18", Run: runC18}) }

const stateDir = "/state"

// identity as observable through the public API
type ident struct {
	cert string
	iat  string
}

func (i ident) String() string { return "cert=" + i.cert + " iat-mode=" + i.iat }

type startKind struct {
	kind    string // "plain", "iat", "explicit"
	iat     int
	nodeID  string
	privKey string
	seed    string
	iatStr  string // bad-iat: a non-numeric iat-mode, if set
	missing int    // partial-explicit: which of the three identity arguments is left out
}

func (k startKind) invalid() bool { return k.kind == "bad-iat" || k.kind == "bad-explicit" }

func (k startKind) args() *pt.Args {
	a := &pt.Args{}
	switch k.kind {
	case "bad-iat":
		if k.iatStr != "" {
			a.Add("iat-mode", k.iatStr)
		} else {
			a.Add("iat-mode", fmt.Sprint(k.iat))
		}
	case "partial-explicit":
		for i, kv := range [][2]string{{"node-id", k.nodeID}, {"private-key", k.privKey}, {"drbg-seed", k.seed}} {
			if i != k.missing {
				a.Add(kv[0], kv[1])
			}
		}
	case "bad-explicit":
		a.Add("node-id", k.nodeID)
		a.Add("private-key", k.privKey)
		a.Add("drbg-seed", k.seed)
	case "iat":
		a.Add("iat-mode", fmt.Sprint(k.iat))
	case "explicit":
		a.Add("node-id", k.nodeID)
		a.Add("private-key", k.privKey)
		a.Add("drbg-seed", k.seed)
		if k.iat >= 0 {
			a.Add("iat-mode", fmt.Sprint(k.iat))
		}
	}
	return a
}

func (k startKind) String() string {
	switch k.kind {
	case "bad-iat":
		if k.iatStr != "" {
			return fmt.Sprintf("start(INVALID iat-mode=%q)", k.iatStr)
		}
		return fmt.Sprintf("start(INVALID iat-mode=%d)", k.iat)
	case "partial-explicit":
		return fmt.Sprintf("start(INCOMPLETE explicit identity: %s left out)", []string{"node-id", "private-key", "drbg-seed"}[k.missing])
	case "bad-explicit":
		return fmt.Sprintf("start(MALFORMED explicit identity: node-id %d hex digits, key %d, seed %d)", len(k.nodeID), len(k.privKey), len(k.seed))
	case "iat":
		return fmt.Sprintf("start(iat-mode=%d)", k.iat)
	case "explicit":
		return fmt.Sprintf("start(explicit identity %s.., iat %d)", k.nodeID[:8], k.iat)
	}
	return "start()"
}

type startResult struct {
	sf      base.ServerFactory
	err     error
	crashed bool
	panicV  interface{}
}

// start runs one ServerFactory start-up in a task of its own so that a
// simulated kill unwinds only that "process".
func start(c *harness.Ctx, name string, k startKind) *startResult {
	res := &startResult{}
	done := false
	c.S.Go(name, func() {
		defer func() {
			done = true
			if r := recover(); r != nil {
				if _, ok := r.(simos.Crash); ok {
					res.crashed = true
					return
				}
				res.panicV = r
				panic(r)
			}
		}()
		res.sf, res.err = transports.Get("obfs4").ServerFactory(stateDir, k.args())
	})
	c.S.Run(func() bool { return done }, time.Minute)
	return res
}

func identOf(sf base.ServerFactory) ident {
	cert, _ := sf.Args().Get("cert")
	iat, _ := sf.Args().Get("iat-mode")
	return ident{cert, iat}
}

// drawAnyKind also produces starts that must be rejected: an out-of-range
// iat-mode override or malformed explicit identity arguments.
func drawAnyKind(c *harness.Ctx, label string) startKind {
	t := c.T
	switch t.Draw(label+".bad", 6) {
	case 5:
		b := make([]byte, 20+32+24)
		c.Rand.Fill("cfg.explicit", b)
		return startKind{kind: "partial-explicit", iat: -1, missing: t.Draw(label+".missing", 3), nodeID: hex.EncodeToString(b[:20]), privKey: hex.EncodeToString(b[20:52]), seed: hex.EncodeToString(b[52:])}
	case 3:
		if t.Draw(label+".badiatk", 2) == 1 {
			return startKind{kind: "bad-iat", iatStr: []string{"x", "1x", "1.0", "0x1"}[t.Draw(label+".badiats", 4)]}
		}
		return startKind{kind: "bad-iat", iat: []int{3, -1, 7, 100}[t.Draw(label+".badiat", 4)]}
	case 4:
		b := make([]byte, 20+32+24)
		c.Rand.Fill("cfg.explicit", b)
		k := startKind{kind: "bad-explicit", iat: -1, nodeID: hex.EncodeToString(b[:20]), privKey: hex.EncodeToString(b[20:52]), seed: hex.EncodeToString(b[52:])}
		switch t.Draw(label+".badx", 4) {
		case 0:
			k.nodeID = k.nodeID[:39] // odd number of hex digits
		case 1:
			k.privKey = k.privKey[:62] // short key
		case 2:
			k.seed = k.seed[:20] // short seed
		case 3:
			k.nodeID = "zz" + k.nodeID[2:] // not hex
		}
		return k
	}
	return drawKind(c, label)
}

func drawKind(c *harness.Ctx, label string) startKind {
	t := c.T
	switch t.Draw(label+".kind", 4) {
	case 1:
		return startKind{kind: "iat", iat: t.Draw(label+".iat", 3)}
	case 2:
		b := make([]byte, 20+32+24)
		c.Rand.Fill("cfg.explicit", b)
		return startKind{kind: "explicit", iat: t.Draw(label+".xiat", 4) - 1, nodeID: hex.EncodeToString(b[:20]), privKey: hex.EncodeToString(b[20:52]), seed: hex.EncodeToString(b[52:])}
	}
	return startKind{kind: "plain"}
}

func runC18(c *harness.Ctx) {
	if c.T.Draw("part", 3) == 2 {
		runC18Tickets(c)
		return
	}
	t := c.T
	d := simos.NewDisk()
	simos.Activate(d)
	defer simos.Deactivate()
	n := 0
	nextName := func() string { n++; return fmt.Sprintf("bridge%d/start", n) }

	// ---- a fault-free history establishes the durable identity
	var durable *ident
	var hist []string
	maxBase := 3
	if c.Tier == "thorough" {
		maxBase = 5
	}
	nBase := 1 + t.Draw("nbase", maxBase)
	for i := 0; i < nBase; i++ {
		k := drawKind(c, "base")
		if i > 0 {
			k = drawAnyKind(c, "base")
		}
		r := start(c, nextName(), k)
		if k.kind == "partial-explicit" && r.err != nil && !r.crashed {
			// an incomplete explicit identity is refused; (were it accepted, it is
			// judged below like a start without identity arguments)
			c.Feature("rejected-start-in-history")
			hist = append(hist, k.kind)
			continue
		}
		if k.invalid() {
			// a start with bad arguments must be refused and must leave what is persisted alone
			if r.err == nil && !r.crashed {
				c.Violate("C18/invalid-arguments-accepted", "%v after history %v was accepted", k, hist)
				return
			}
			c.Feature("rejected-start-in-history")
			hist = append(hist, k.kind)
			continue
		}
		if r.crashed || r.err != nil {
			c.Violate("C18/fault-free-start-failed", "%v after history %v: err=%v", k, hist, r.err)
			return
		}
		id := identOf(r.sf)
		if durable != nil {
			switch k.kind {
			case "plain", "partial-explicit":
				if id != *durable {
					c.Violate("C18/identity-changed-on-restart", "history %v then %v: advertised %v, previously %v", hist, k, id, *durable)
					return
				}
			case "iat":
				if id.cert != durable.cert || id.iat != fmt.Sprint(k.iat) {
					c.Violate("C18/identity-changed-on-restart", "history %v then %v: advertised %v, previously %v", hist, k, id, *durable)
					return
				}
			}
		}
		if k.kind == "explicit" {
			want := explicitCert(k)
			if id.cert != want {
				c.Violate("C18/explicit-identity-not-used", "%v advertises cert %q, the given node ID and key give %q", k, id.cert, want)
				return
			}
		}
		// bridge lines round-trip: both argument forms name exactly this identity
		if !checkBridgeLine(c, d, id) {
			return
		}
		durable = &id
		hist = append(hist, k.kind)
	}

	// what happens after the interrupted start: 0-2 further complete starts of
	// any kind, then a plain one (the same sequence for every crash point)
	var post []startKind
	for i, n := 0, t.Draw("npost", 3); i < n; i++ {
		post = append(post, drawAnyKind(c, "post"))
	}
	// ---- the next start is interrupted at every disk step
	k := drawKind(c, "next")
	snap := d.Snapshot()
	d.ResetPlan()
	dry := start(c, nextName(), k)
	if dry.crashed || dry.err != nil {
		c.Violate("C18/fault-free-start-failed", "%v after history %v: err=%v", k, hist, dry.err)
		return
	}
	steps := append([]simos.StepRec(nil), d.Steps...)
	after := identOf(dry.sf)
	c.Info["history"], c.Info["interrupted"], c.Info["disk_steps"] = hist, k.String(), steps
	acceptable := map[ident]bool{*durable: true, after: true}
	if k.kind == "iat" {
		acceptable[ident{durable.cert, fmt.Sprint(k.iat)}] = true
	}
	reads := len(d.Reads)
	c.Info["disk_reads"] = append([]string(nil), d.Reads...)
	faults := []struct {
		name string
		err  error
	}{{"crash", nil}, {"EIO", syscall.EIO}, {"ENOSPC", syscall.ENOSPC}}
	// one fault case: a kill or an error at a mutating step, or an error on the
	// n-th read of a file that exists (an unreadable state file is not a missing one)
	type fcase struct {
		j    int // disk step, or read number if read
		op   string
		path string
		name string
		err  error
		ts   int
		read bool
	}
	var cases []fcase
	for j := 1; j <= len(steps); j++ {
		torn := []int{0}
		if steps[j-1].Op == "write" {
			torn = []int{0, 1, 2, 3, 4, 5 + t.Draw("torn", 4096)}
		}
		for _, fk := range faults {
			for _, ts := range torn {
				cases = append(cases, fcase{j: j, op: steps[j-1].Op, path: steps[j-1].Path, name: fk.name, err: fk.err, ts: ts})
			}
		}
	}
	for r := 1; r <= reads; r++ {
		for _, fk := range []struct {
			name string
			err  error
		}{{"EIO", syscall.EIO}, {"EACCES", syscall.EACCES}} {
			cases = append(cases, fcase{j: r, op: "read", path: d.Reads[r-1], name: fk.name, err: fk.err, read: true})
		}
	}
	evals := 0
	{
		{
			for _, fc := range cases {
				j, ts := fc.j, fc.ts
				fk := fc
				d.Restore(snap)
				d.ResetPlan()
				d.TornSel = ts
				switch {
				case fc.read:
					d.ReadErrAt, d.ReadErrKind = j, fc.err
				case fk.err == nil:
					d.CrashAt = j
				default:
					d.ErrAt, d.ErrKind = j, fk.err
				}
				total := len(steps)
				if fc.read {
					total = reads
				}
				caseID := fmt.Sprintf("%v|%v|step %d/%d %s %s|%s|torn %d", hist, k.kind, j, total, fc.op, strings.TrimPrefix(fc.path, stateDir), fk.name, tornClass(ts))
				c.Case(caseID)
				c.S.Log("case", caseID)
				firedBefore := d.Fired[fk.name+"@read"]
				r := start(c, nextName(), k)
				evals++
				c.S.Count("fault."+fk.name+"@"+fc.op, 1)
				if fc.read && d.Fired[fk.name+"@read"] == firedBefore {
					c.Violate("C18/harness", "read fault planned at read %d did not fire", j)
					return
				}
				if fk.err == nil && !r.crashed {
					c.Violate("C18/harness", "crash planned at step %d did not fire", j)
					return
				}
				if r.sf != nil {
					acceptable[identOf(r.sf)] = acceptable[identOf(r.sf)] // a start that survived an injected error must itself be consistent
					if !acceptable[identOf(r.sf)] {
						c.Violate("C18/identity-replaced-under-error", "history %v; %v with %s at disk step/read %d (%s %s): the start returned identity %v; durable was %v", hist, k, fk.name, j, fc.op, fc.path, identOf(r.sf), *durable)
						return
					}
				}
				// life goes on: further complete starts, each of which must work
				// and respect what is persisted
				what := fmt.Sprintf("history %v; %v interrupted by %s at disk step/read %d of %d (%s %s, torn selector %d)", hist, k, fk.name, j, total, fc.op, fc.path, ts)
				okSet := map[ident]bool{}
				for id := range acceptable {
					okSet[id] = true
				}
				if r.sf != nil && !r.crashed {
					// the start came up in spite of the injected error and has told
					// Tor (SMETHOD ARGS) who it is: that, and nothing else, is what the
					// following starts present
					okSet = map[ident]bool{identOf(r.sf): true}
					c.Feature("start-succeeded-under-injected-error")
				}
				failed := false
				for pi, pk := range post {
					d.ResetPlan()
					pr := start(c, nextName(), pk)
					what += fmt.Sprintf("; then %v", pk)
					if pk.kind == "partial-explicit" && pr.err != nil && !pr.crashed {
						continue
					}
					if pk.invalid() {
						if pr.err == nil && !pr.crashed {
							c.Violate("C18/invalid-arguments-accepted", "%s: accepted", what)
							failed = true
							break
						}
						continue
					}
					if pr.crashed || pr.err != nil {
						c.Violate("C18/identity-lost", "%s: this later start fails with %q; the bridge had identity %v; files now: %s", what, pr.err, *durable, describe(d))
						failed = true
						break
					}
					got := identOf(pr.sf)
					switch pk.kind {
					case "explicit":
						if got.cert != explicitCert(pk) {
							c.Violate("C18/explicit-identity-not-used", "%s: advertises %v", what, got)
							failed = true
						}
						okSet = map[ident]bool{got: true}
					case "iat":
						certOK := false
						for id := range okSet {
							if id.cert == got.cert {
								certOK = true
							}
						}
						if !certOK || got.iat != fmt.Sprint(pk.iat) {
							c.Violate("C18/identity-replaced", "%s: later start %d presents %v; acceptable were %v", what, pi, got, keys(okSet))
							failed = true
						}
						okSet = map[ident]bool{got: true}
					default:
						if !okSet[got] {
							c.Violate("C18/identity-replaced", "%s: later start %d presents %v; acceptable were %v", what, pi, got, keys(okSet))
							failed = true
						}
						okSet = map[ident]bool{got: true}
					}
					if failed {
						break
					}
				}
				if failed {
					return
				}
				// recovery: a plain start from whatever the disk holds now
				d.ResetPlan()
				rec := start(c, nextName(), startKind{kind: "plain"})
				what += "; files now: " + describe(d)
				acceptable := okSet
				if rec.crashed {
					c.Violate("C18/harness", "recovery crashed")
					return
				}
				if rec.err != nil {
					c.Violate("C18/identity-lost", "%s: the next start fails with %q; the bridge had identity %v", what, rec.err, *durable)
					return
				}
				if got := identOf(rec.sf); !acceptable[got] {
					c.Violate("C18/identity-replaced", "%s: the next start presents %v; the bridge had identity %v", what, got, *durable)
					return
				}
			}
		}
	}
	c.S.Count("crash_points", int64(evals))
	c.Reached, c.Nontrivial = true, true
	c.Feature("interrupted-" + k.kind)
}

func keys(m map[ident]bool) []ident {
	var out []ident
	for k := range m {
		out = append(out, k)
	}
	return out
}

func tornClass(ts int) int {
	if ts > 5 {
		return 5
	}
	return ts
}

func describe(d *simos.Disk) string {
	var parts []string
	for _, n := range d.Names() {
		b, _ := d.Get(n)
		parts = append(parts, fmt.Sprintf("%s(%d bytes)", strings.TrimPrefix(n, stateDir+"/"), len(b)))
	}
	return strings.Join(parts, ", ")
}

func explicitCert(k startKind) string {
	var nid [20]byte
	var priv [32]byte
	b, _ := hex.DecodeString(k.nodeID)
	copy(nid[:], b)
	b, _ = hex.DecodeString(k.privKey)
	copy(priv[:], b)
	return obfs4ref.NewIdentity(nid, priv).Cert()
}

// checkBridgeLine: a client parsing the advertised arguments (cert form, and
// the legacy node-id/public-key form derived from it by the reference) must
// accept them, and obfs4_bridgeline.txt must carry the same cert.
func checkBridgeLine(c *harness.Ctx, d *simos.Disk, id ident) bool {
	rid, err := obfs4ref.ParseCert(id.cert)
	if err != nil {
		c.Violate("C18/advertised-cert-unparsable", "reference cannot parse advertised cert %q: %v", id.cert, err)
		return false
	}
	if rid.Cert() != id.cert {
		c.Violate("C18/cert-not-canonical", "cert %q re-encodes as %q", id.cert, rid.Cert())
		return false
	}
	cf, _ := transports.Get("obfs4").ClientFactory("")
	a1 := &pt.Args{}
	a1.Add("cert", id.cert)
	a1.Add("iat-mode", id.iat)
	if _, err := cf.ParseArgs(a1); err != nil {
		c.Violate("C18/client-rejects-advertised-args", "client ParseArgs(%v): %v", *a1, err)
		return false
	}
	a2 := &pt.Args{}
	a2.Add("node-id", rid.NodeIDHex())
	a2.Add("public-key", rid.PubHex())
	a2.Add("iat-mode", id.iat)
	if _, err := cf.ParseArgs(a2); err != nil {
		c.Violate("C18/client-rejects-legacy-args", "client ParseArgs(%v): %v", *a2, err)
		return false
	}
	if bl, ok := d.Get(stateDir + "/obfs4_bridgeline.txt"); ok {
		if !strings.Contains(string(bl), "cert="+id.cert+" iat-mode="+id.iat) {
			c.Violate("C18/bridgeline-file-differs", "obfs4_bridgeline.txt does not carry %v", id)
			return false
		}
	}
	return true
}

// runC18Tickets: the other persisted client state.  A ScrambleSuit client
// process is killed (or hits EIO / ENOSPC) at every disk step of a connection
// that spends one ticket and stores a new one; afterwards ClientFactory on
// the same state directory must still start, and a spent ticket must never
// be presented to the server again.
func runC18Tickets(c *harness.Ctx) {
	t := c.T
	w := newSSWorld(c)
	defer simos.Deactivate()
	if err := w.newFactory(); err != nil {
		c.Violate("C18/ticket-store-blocks-startup", "first start: %v", err)
		return
	}
	// fault-free prefix: none, one or two connections, the last one leaves a
	// ticket (with none, the interrupted connection makes the very first
	// checkpoint of a fresh state directory)
	npre := t.Draw("npre", 3)
	for i := 0; i < npre; i++ {
		if !w.connect(ssConnectOpts{issueTicket: true, sendSeed: t.Draw("seed", 2) == 1}) {
			return
		}
	}
	if npre == 0 {
		c.Feature("first-checkpoint-of-a-fresh-directory")
	} else if _, ok := w.d.Get(ssDir + "/scramblesuit_tickets.json"); !ok {
		// (the ticket packet can be lost when the connection is torn down first)
		c.Feature("prefix-left-no-ticket")
		c.Reached = true
		return
	}
	if t.Draw("many-bridges", 40) == 39 {
		// a long history: the client has talked to a few hundred different
		// bridges, each of which left a ticket (the store grows with every one);
		// then it restarts.  No fault at all.
		n := 230 + t.Draw("many-bridges.n", 40)
		for i := 0; i < n; i++ {
			if !w.connect(ssConnectOpts{issueTicket: true, peer: &net.TCPAddr{IP: net.IPv4(10, 1, byte(i/250), byte(1+i%250)), Port: 443}}) {
				return
			}
		}
		c.Info["bridges"], c.Info["ticket_file"] = n, describeSS(w.d)
		if err := w.newFactory(); err != nil {
			c.Violate("C18/ticket-store-blocks-startup", "after connections to %d different bridges (ticket file %s) and no fault at all, the next ClientFactory fails with %q", n, describeSS(w.d), err)
			return
		}
		if !w.connect(ssConnectOpts{}) {
			return
		}
		c.Reached, c.Nontrivial = true, true
		c.Feature("tickets-of-hundreds-of-bridges")
		return
	}
	if npre > 0 && t.Draw("startfaults", 3) == 2 {
		runC18TicketStart(c, w)
		return
	}
	snap := w.d.Snapshot()
	uses := make([]int, len(w.server.Tickets))
	for i, tk := range w.server.Tickets {
		uses[i] = tk.Uses
	}
	nTickets := len(w.server.Tickets)
	restore := func() {
		w.d.Restore(snap)
		w.server.Tickets = w.server.Tickets[:nTickets]
		for i, tk := range w.server.Tickets {
			tk.Uses = uses[i]
		}
		w.crashed = false
	}
	// dry run of the connection that will be interrupted
	next := ssConnectOpts{issueTicket: t.Draw("issue", 2) == 1 || npre == 0}
	w.d.ResetPlan()
	if !w.connect(next) {
		return
	}
	steps := append([]simos.StepRec(nil), w.d.Steps...)
	c.Info["interrupted"], c.Info["disk_steps"] = fmt.Sprintf("connect(issueTicket=%v)", next.issueTicket), steps
	faults := []struct {
		name string
		err  error
	}{{"crash", nil}, {"EIO", syscall.EIO}, {"ENOSPC", syscall.ENOSPC}}
	for j := 1; j <= len(steps); j++ {
		torn := []int{0}
		if steps[j-1].Op == "write" {
			torn = []int{0, 1, 2, 3, 4, 5 + t.Draw("torn", 4096)}
		}
		for _, fk := range faults {
			for _, ts := range torn {
				restore()
				if err := w.newFactory(); err != nil {
					c.Violate("C18/harness", "factory from the snapshot: %v", err)
					return
				}
				w.d.ResetPlan()
				w.d.TornSel = ts
				if fk.err == nil {
					w.d.CrashAt = j
				} else {
					w.d.ErrAt, w.d.ErrKind = j, fk.err
				}
				caseID := fmt.Sprintf("tickets|%v|step %d/%d %s|%s|torn %d", next.issueTicket, j, len(steps), steps[j-1].Op, fk.name, tornClass(ts))
				c.Case(caseID)
				c.S.Log("case", caseID)
				c.S.Count("fault."+fk.name+"@ticket-"+steps[j-1].Op, 1)
				w.lenient, c.S.Mute = true, true
				w.connect(next)
				w.lenient, c.S.Mute = false, false
				what := fmt.Sprintf("client connection interrupted by %s at disk step %d of %d (%s %s, torn selector %d); ticket file now %s", fk.name, j, len(steps), steps[j-1].Op, steps[j-1].Path, ts, describeSS(w.d))
				// recovery: the client starts again from the same directory
				w.d.ResetPlan()
				if err := w.newFactory(); err != nil {
					c.Violate("C18/ticket-store-blocks-startup", "%s: ClientFactory fails with %q", what, err)
					return
				}
				// and keeps working; nothing spent comes back
				if !w.connect(ssConnectOpts{}) {
					return
				}
				for _, tk := range w.server.Tickets {
					if tk.Uses > 1 {
						c.Violate("C18/spent-ticket-reappeared", "%s: after the restart the server saw a ticket for the %d. time", what, tk.Uses)
						return
					}
				}
			}
		}
	}
	c.Reached, c.Nontrivial = true, true
	c.Feature("tickets-crash-enumeration")
}

// runC18TicketStart: the client's start-up itself under disk faults, with
// what earlier connections left in the state directory - as it is, or eight
// days later, when every stored ticket has expired.  Whatever the start does
// with the store (nothing at all, on the unchanged tree: it only reads), a
// disk that refuses a write, or a kill at that step, must not keep the client
// from starting - then or afterwards: tickets are at worst forgotten.
func runC18TicketStart(c *harness.Ctx, w *ssWorld) {
	t := c.T
	aged := t.Draw("startfaults.aged", 2) == 1
	if aged {
		c.S.Sleep(8 * 24 * time.Hour)
		c.Feature("client-start-with-expired-tickets")
	}
	snap := w.d.Snapshot()
	w.d.ResetPlan()
	if err := w.newFactory(); err != nil {
		c.Violate("C18/ticket-store-blocks-startup", "fault-free start (tickets expired: %v): ClientFactory fails with %q", aged, err)
		return
	}
	steps := append([]simos.StepRec(nil), w.d.Steps...)
	c.Info["interrupted"], c.Info["disk_steps"] = fmt.Sprintf("client start (tickets expired: %v)", aged), steps
	faults := []struct {
		name string
		err  error
	}{{"crash", nil}, {"EIO", syscall.EIO}, {"ENOSPC", syscall.ENOSPC}}
	for j := 1; j <= len(steps); j++ {
		torn := []int{0}
		if steps[j-1].Op == "write" {
			torn = []int{0, 1, 2, 3, 4, 5 + t.Draw("torn", 4096)}
		}
		for _, fk := range faults {
			for _, ts := range torn {
				w.d.Restore(snap)
				w.crashed = false
				w.d.ResetPlan()
				w.d.TornSel = ts
				if fk.err == nil {
					w.d.CrashAt = j
				} else {
					w.d.ErrAt, w.d.ErrKind = j, fk.err
				}
				caseID := fmt.Sprintf("ticket-start|%v|step %d/%d %s|%s|torn %d", aged, j, len(steps), steps[j-1].Op, fk.name, tornClass(ts))
				c.Case(caseID)
				c.S.Log("case", caseID)
				c.S.Count("fault."+fk.name+"@ticket-start-"+steps[j-1].Op, 1)
				c.S.Mute = true
				err := w.newFactory()
				c.S.Mute = false
				what := fmt.Sprintf("client start (tickets expired: %v) with %s at disk step %d of %d (%s %s, torn selector %d)", aged, fk.name, j, len(steps), steps[j-1].Op, steps[j-1].Path, ts)
				if fk.err != nil && err != nil {
					c.Violate("C18/ticket-store-blocks-startup", "%s: ClientFactory fails with %q; stored tickets may be forgotten, they must not keep the client from starting", what, err)
					return
				}
				w.d.ResetPlan()
				w.crashed = false
				if err := w.newFactory(); err != nil {
					c.Violate("C18/ticket-store-blocks-startup", "%s; ticket file now %s: the next ClientFactory fails with %q", what, describeSS(w.d), err)
					return
				}
				if !w.connect(ssConnectOpts{}) {
					return
				}
			}
		}
	}
	c.S.Count("ticket_start_disk_steps", int64(len(steps)))
	c.Reached, c.Nontrivial = true, true
	c.Feature("ticket-start-enumeration")
}

func describeSS(d *simos.Disk) string {
	b, ok := d.Get(ssDir + "/scramblesuit_tickets.json")
	if !ok {
		return "absent"
	}
	return fmt.Sprintf("%d bytes", len(b))
}
