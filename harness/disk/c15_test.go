package disk

import (
	"encoding/base32"
	"fmt"
	"io"
	"net"
	"time"

	pt "gitlab.torproject.org/tpo/anti-censorship/pluggable-transports/goptlib"

	"gitlab.com/yawning/obfs4.git/transports"
	"gitlab.com/yawning/obfs4.git/transports/base"

	"verifsim/harness"
	"verifsim/ref/obfsref"
	"verifsim/sim"
	"verifsim/simnet"
	"verifsim/simos"
)

func init() { register(&harness.Prop{ID: "C15", Run: runC15}) }

const ssDir = "/ss"

func pat(d int, i int64) byte {
	x := uint64(i)*0x9e3779b97f4a7c15 + uint64(d)*0x632be59bd9b4e019
	x ^= x >> 29
	return byte(x ^ x>>8 ^ x>>17 ^ x>>43)
}

func nowHour() int64 { return time.Now().Unix() / 3600 }

var ssSizes = []int{0, 1, 2, 21, 100, 1426, 1427, 1428, 1448, 2854, 4000}

type ssConnectOpts struct {
	wrongSecret  bool
	tamperReply  int // 0 none; 1 Y; 2 padding; 3 M_S; 4 MAC_S
	tamperPacket bool
	issueTicket  bool
	sendSeed     bool
	peer         net.Addr // the bridge's address as the client sees it (default 10.0.0.2:443)
}

type ssWorld struct {
	c        *harness.Ctx
	d        *simos.Disk
	secret   []byte
	server   *obfsref.SSServer
	issuedAt map[*obfsref.SSTicket]time.Time
	cf       base.ClientFactory
	hist     []string
	nConn    int
	// lenient: a fault was injected into the client's disk; stream verdicts of
	// this connect are not judged (the process may die or fail mid-way)
	lenient bool
	// crashed is set when a simulated kill unwound a client task
	crashed bool
}

func newSSWorld(c *harness.Ctx) *ssWorld {
	w := &ssWorld{c: c, d: simos.NewDisk(), issuedAt: map[*obfsref.SSTicket]time.Time{}}
	simos.Activate(w.d)
	w.secret = make([]byte, 20)
	c.Rand.Fill("cfg.secret", w.secret)
	w.server = &obfsref.SSServer{Secret: w.secret}
	c.S.Recover = func(task string, r interface{}) bool {
		if _, ok := r.(simos.Crash); ok {
			w.crashed = true
			return true
		}
		return false
	}
	return w
}

// newFactory starts a client "process": ClientFactory on the simulated disk.
func (w *ssWorld) newFactory() error {
	c := w.c
	var err error
	done := false
	c.S.Go("c/factory", func() {
		defer func() { done = true }()
		w.cf, err = transports.Get("scramblesuit").ClientFactory(ssDir)
	})
	c.S.Run(func() bool { return done }, time.Minute)
	return err
}

func (w *ssWorld) connect(o ssConnectOpts) bool {
	c, t, d, secret, server, issuedAt := w.c, w.c.T, w.d, w.secret, w.server, w.issuedAt
	_ = d
	cf := w.cf

	w.nConn++
	cn := fmt.Sprintf("c%d", w.nConn)
	link := c.Net.NewLink(cn, "r")
	if o.peer != nil {
		link.A.SetPeer(o.peer)
	}
	for _, p := range []*simnet.Pipe{link.AB, link.BA} {
		p.Policy = t.Draw("chunk", simnet.NumChunk)
		p.Lazy = t.Draw("lazy", 4) == 3
		p.MaxRead = []int{0, 0, 1, 7, 1448}[t.Draw("maxread", 5)]
	}
	// the bridge may hang up as soon as it has sent and received everything
	// while the client still has bytes coming; the link may then report the
	// end of the stream in the same read as the last bytes
	// one connection in five starts a moment before a full hour and the bridge
	// takes its time, so that the reply arrives in the next hour
	think := time.Duration(0)
	if t.Draw("houredge", 5) == 4 {
		edge := []time.Duration{time.Millisecond, 5 * time.Millisecond, 500 * time.Millisecond}[t.Draw("houredge.before", 3)]
		left := time.Hour - time.Duration(time.Now().UnixNano()%int64(time.Hour))
		if left > edge {
			c.S.Sleep(left - edge)
		}
		think = []time.Duration{10 * time.Millisecond, time.Second, 3 * time.Second}[t.Draw("houredge.think", 3)]
		c.Feature("connect-just-before-the-hour")
	}
	hangUp := !o.wrongSecret && o.tamperReply == 0 && !o.tamperPacket && t.Draw("hangup", 4) == 3
	link.BA.ErrWithData = hangUp && t.Draw("ewd", 2) == 1
	hungUp := false
	ending := false
	useSecret := secret
	if o.wrongSecret {
		useSecret = make([]byte, 20)
		c.Rand.Fill("cfg.wrongsecret", useSecret)
	}
	// plans
	mkPlan := func(l string) []int {
		var p []int
		for i, n := 0, t.Draw(l+".n", 4); i < n; i++ {
			p = append(p, ssSizes[t.Draw(l+".sz", len(ssSizes))])
		}
		return p
	}
	cPlan, sPlan := mkPlan("cw"), mkPlan("sw")
	if t.Draw("huge-write", 12) == 11 {
		// one very large client write (on and around powers of two)
		sz := []int{65535, 65536, 65537, 100000, 131073, 300000}[t.Draw("huge-write.size", 6)]
		cPlan = append(cPlan, sz)
		for _, p := range []*simnet.Pipe{link.AB, link.BA} {
			if p.Policy != simnet.ChunkBurst && p.Policy != simnet.ChunkAll && p.Policy != simnet.ChunkMSS {
				p.Policy = simnet.ChunkAll
			}
			if p.MaxRead > 0 && p.MaxRead < 1448 {
				p.MaxRead = 0
			}
		}
		c.S.MaxSteps *= 4
		c.Feature("one-very-large-client-write")
	}
	var cTotal, sTotal int64
	for _, n := range cPlan {
		cTotal += int64(n)
	}
	for _, n := range sPlan {
		sTotal += int64(n)
	}
	padLen := []int{0, 1, 100, obfsref.SSMaxPad - 1, obfsref.SSMaxPad}[t.Draw("spad", 5)]
	if t.Draw("spadr", 2) == 1 {
		padLen = t.Draw("spadv", obfsref.SSMaxPad+1)
	}
	splitSel := t.Draw("split", 400)
	coalesceData := t.Draw("coalesce", 3) == 2 // first server data rides behind the reply
	var dialConn net.Conn
	var dialErr error
	var dialDone bool
	var dialTook time.Duration
	var sawTicket *obfsref.SSTicket
	var sawUDH, srvUp bool
	var srvGot int64
	var srvErr error
	var cliGot int64
	var cliErr error
	var cliRdDone, cliWrDone, srvWrDone bool
	var accepted *obfsref.SSHandshakeResult
	var tamperedAt int64 = -1
	var presentedAt time.Time
	endReads := 0
	// one connection in six is quiet for 61-90 s before one of the client's
	// writes (longer than any handshake timer)
	quietBefore, quiet := -1, time.Duration(0)
	if len(cPlan) > 0 && !o.tamperPacket && o.tamperReply == 0 && !o.wrongSecret && t.Draw("quiet", 6) == 5 {
		quietBefore = t.Draw("quiet.before", len(cPlan))
		quiet = time.Duration(61+t.Draw("quiet.s", 30)) * time.Second
		c.Feature("client-quiet-for-over-a-minute")
	}

	maybeHangUp := func() {
		if hangUp && !hungUp && srvWrDone && cliWrDone && srvGot == cTotal {
			hungUp = true
			c.S.Count("fault.bridge-hangs-up-with-data-in-flight", 1)
			link.B.Close()
		}
	}
	c.S.Go("r/accept"+cn, func() {
		var buf []byte
		tmp := make([]byte, 4096)
		priv := make([]byte, 192)
		c.Rand.Fill("ref.key", priv)
		key := obfsref.NewUDH(priv, t.Draw("ralt", 2) == 1)
		pad := make([]byte, padLen)
		c.Rand.Fill("ref.pad", pad)
		link.B.SetReadDeadline(time.Now().Add(90 * time.Second))
		for accepted == nil {
			n, err := link.B.Read(tmp)
			buf = append(buf, tmp[:n]...)
			if n > 0 {
				r, aerr := server.Accept(buf, nowHour(), key, pad)
				if aerr == nil {
					accepted = r
					break
				}
				if aerr != obfsref.ErrSSNeedMore {
					srvErr = aerr
					return
				}
			}
			if err != nil {
				srvErr = err
				return
			}
		}
		link.B.SetReadDeadline(time.Time{})
		if think > 0 {
			c.S.Sleep(think)
		}
		sess := accepted.Session
		sawTicket = accepted.Ticket
		presentedAt = time.Now()
		sawUDH = accepted.Ticket == nil
		_ = sawUDH
		var first []byte
		if accepted.Reply != nil {
			reply := append([]byte(nil), accepted.Reply...)
			if o.tamperReply != 0 {
				c.S.Count("fault.tamper-reply-field", 1)
			}
			if o.wrongSecret {
				c.S.Count("fault.wrong-secret", 1)
			}
			switch o.tamperReply {
			case 1:
				reply[t.Draw("ty", 192)] ^= 1 << uint(t.Draw("tbit", 8))
			case 2:
				if padLen > 0 {
					reply[192+t.Draw("tp", padLen)] ^= 1 << uint(t.Draw("tbit", 8))
				} else {
					reply[len(reply)-1] ^= 1
				}
			case 3:
				reply[192+padLen+t.Draw("tm", 16)] ^= 1 << uint(t.Draw("tbit", 8))
			case 4:
				reply[192+padLen+16+t.Draw("tmac", 16)] ^= 1 << uint(t.Draw("tbit", 8))
			}
			// split point: every byte position from the end of the key to the end
			// of the reply is a candidate; the tail (mark and MAC) is favoured
			span := len(reply) - 192
			var s int
			switch {
			case splitSel < 100:
				s = len(reply) // unsplit
			case splitSel < 300:
				s = len(reply) - 33 + (splitSel-100)%34 // in or just before M_S | MAC_S
			default:
				s = 192 + (splitSel-300)*span/100
			}
			if s < 1 {
				s = 1
			}
			c.Info["reply_len"], c.Info["split_at"] = len(reply), s
			if s < len(reply) {
				c.Feature("reply-split")
				c.S.Count("fault.reply-split", 1)
				if s > len(reply)-32 {
					c.Feature("reply-split-inside-mark-or-mac")
				}
				if s > len(reply)-16 {
					c.Feature("reply-split-inside-MAC_S")
				}
				if _, err := link.B.Write(reply[:s]); err != nil {
					return
				}
				c.S.Sleep(10 * time.Millisecond)
				first = reply[s:]
			} else {
				first = reply
			}
		}
		// post-handshake control packets
		if o.issueTicket && o.tamperReply == 0 {
			tk := &obfsref.SSTicket{Key: make([]byte, 32), Ticket: make([]byte, 112)}
			c.Rand.Fill("ref.ticket", tk.Key)
			c.Rand.Fill("ref.ticket", tk.Ticket)
			server.Tickets = append(server.Tickets, tk)
			issuedAt[tk] = time.Now()
			first = append(first, sess.Packet(obfsref.SSFlagNewTicket, append(append([]byte{}, tk.Key...), tk.Ticket...), t.Draw("tkpad", 50))...)
			c.Feature("ticket-issued")
		}
		if o.sendSeed {
			seed := make([]byte, 32)
			c.Rand.Fill("ref.seed", seed)
			first = append(first, sess.Packet(obfsref.SSFlagPrngSeed, seed, 0)...)
		}
		srvUp = true
		// reader
		leftover := append([]byte(nil), buf[accepted.Consumed:]...)
		c.S.Go("r/reader"+cn, func() {
			rb := make([]byte, 8192)
			for {
				var n int
				var err error
				if leftover != nil {
					// bytes that followed the handshake in the same reads (a ticket
					// client does not wait for a reply before sending data)
					n = copy(rb, leftover)
					leftover = nil
				} else {
					n, err = link.B.Read(rb)
				}
				if ending {
					return
				}
				if n > 0 {
					pks, ferr := sess.Feed(rb[:n])
					for _, pk := range pks {
						if pk.Flags != obfsref.SSFlagPayload {
							c.Violate("C15/client-sent-control-packet", "client sent packet with flags %#x", pk.Flags)
							return
						}
						for i, b := range pk.Payload {
							if b != pat(0, srvGot+int64(i)) {
								c.Violate("C15/server-got-wrong-bytes", "reference server decoded byte %d differently from what the application wrote", srvGot+int64(i))
								return
							}
						}
						srvGot += int64(len(pk.Payload))
					}
					maybeHangUp()
					if hungUp {
						return
					}
					if ferr != nil {
						c.Violate("C15/server-cannot-decode", "%v opts %+v: reference server cannot authenticate a client packet after %d payload bytes (handshake via ticket: %v): %v", w.hist, o, srvGot, accepted.Ticket != nil, ferr)
						return
					}
				}
				if err != nil {
					return
				}
			}
		})
		// writer
		var off int64
		pending := first
		flipped, noTail := false, false
		for i, n := range append([]int{-1}, sPlan...) {
			var out []byte
			if i == 0 {
				if coalesceData && len(sPlan) > 0 {
					continue // the first data write carries `pending`
				}
				out = pending
				pending = nil
			} else {
				out = pending
				pending = nil
				rem := n
				for rem > 0 || n == 0 {
					k := rem
					if k > obfsref.SSMaxPayload {
						k = obfsref.SSMaxPayload
					}
					if k > 1 && t.Draw("ssplit", 3) == 2 {
						k = 1 + t.Draw("ssplitn", k)
					}
					buf := make([]byte, k)
					for j := range buf {
						buf[j] = pat(1, off+int64(j))
					}
					pad := 0
					if t.Draw("spktpad", 3) == 2 {
						pad = t.Draw("spktpadn", obfsref.SSMaxPayload-k+1)
					}
					pkt := sess.Packet(obfsref.SSFlagPayload, buf, pad)
					if o.tamperPacket && !flipped && off+int64(k) > sTotal/2 {
						flipped = true
						tamperedAt = off
						at := t.Draw("pflip", len(pkt))
						// nothing at all follows the modified packet in half the runs
						// (silence, or the end of the stream): the modification must
						// surface from what has arrived.  Not possible if the flip
						// hits the encrypted length fields - the receiver may then be
						// waiting for a longer packet - so those stay out of this variant.
						noTail = t.Draw("pnotail", 2) == 1
						if noTail && at >= 16 && at < 20 {
							at = 20
						}
						pkt[at] ^= 1 << uint(t.Draw("pbit", 8))
						if noTail {
							// the rest of the plan is dropped: the modified packet is the last thing sent
							sTotal = off + int64(k)
							out = append(out, pkt...)
							link.B.Write(out)
							c.Feature("packet-bit-flipped-and-nothing-follows")
							c.S.Count("fault.tamper-packet-bit", 1)
							if t.Draw("pnotail.eof", 2) == 1 {
								link.B.CloseWrite()
							}
							srvWrDone = true
							return
						}
						c.Feature("packet-bit-flipped")
						c.S.Count("fault.tamper-packet-bit", 1)
					}
					out = append(out, pkt...)
					off += int64(k)
					rem -= k
					if n == 0 {
						break
					}
				}
			}
			if len(out) > 0 {
				if _, err := link.B.Write(out); err != nil {
					return
				}
			}
		}
		if pending != nil {
			link.B.Write(pending)
		}
		if flipped {
			// valid traffic continues for more than a maximum packet, so that a
			// damaged length field cannot hide behind "still waiting for data"
			var tail []byte
			for i := 0; i < 3; i++ {
				tail = append(tail, sess.Packet(obfsref.SSFlagPayload, nil, obfsref.SSMaxPayload)...)
			}
			link.B.Write(tail)
		}
		srvWrDone = true
		maybeHangUp()
	})
	c.S.Go(cn+"/dial", func() {
		t0 := time.Now()
		args := &pt.Args{}
		args.Add("password", base32.StdEncoding.EncodeToString(useSecret))
		pa, err := cf.ParseArgs(args)
		if err != nil {
			dialErr, dialDone = err, true
			return
		}
		dialConn, dialErr = cf.Dial("tcp", "10.0.0.2:443", func(string, string) (net.Conn, error) { return link.A, nil }, pa)
		dialTook, dialDone = time.Since(t0), true
		if dialErr != nil {
			return
		}
		conn := dialConn
		c.S.Go(cn+"/reader", func() {
			rb := make([]byte, []int{8192, 1, 100, 1427}[t.Draw("crd", 4)])
			for {
				n, err := conn.Read(rb)
				if ending {
					return
				}
				for i := 0; i < n; i++ {
					if rb[i] != pat(1, cliGot+int64(i)) {
						c.Violate("C15/altered-data-delivered", "client Read returned byte %d that the server did not send (server wrote %d bytes, tampered packet started at %d)", cliGot+int64(i), sTotal, tamperedAt)
						return
					}
				}
				cliGot += int64(n)
				if tamperedAt >= 0 && cliGot > tamperedAt {
					c.Violate("C15/delivered-past-tampered-packet", "client delivered %d bytes although the packet starting at %d was modified", cliGot, tamperedAt)
					return
				}
				if err == io.EOF && hungUp {
					// the bridge hung up: read on while data keeps coming
					if n == 0 {
						if endReads++; endReads >= 3 {
							cliErr, cliRdDone = err, true
							return
						}
					}
					continue
				}
				if err != nil {
					cliErr, cliRdDone = err, true
					return
				}
			}
		})
		var off int64
		for wi, n := range cPlan {
			if wi == quietBefore {
				// the application has nothing to say for more than a minute
				c.S.Sleep(quiet)
			}
			buf := make([]byte, n)
			for j := range buf {
				buf[j] = pat(0, off+int64(j))
			}
			k, err := conn.Write(buf)
			for j := range buf {
				buf[j] = 0xEE // the application may reuse its buffer at once
			}
			if ending {
				return
			}
			if err != nil || k != n {
				c.Violate("C15/write-failed", "client Write(%d) = (%d, %v)", n, k, err)
				return
			}
			off += int64(n)
		}
		cliWrDone = true
	})
	expectFail := o.wrongSecret || o.tamperReply != 0
	desc := fmt.Sprintf("connect#%d(pad %d", w.nConn, padLen)
	if o.wrongSecret {
		desc += ", wrong secret"
	}
	if o.tamperReply != 0 {
		desc += fmt.Sprintf(", reply tampered in field %d", o.tamperReply)
	}
	if o.tamperPacket {
		desc += ", data packet tampered"
	}
	desc += ")"
	w.hist = append(w.hist, desc)
	stop := c.S.Run(func() bool {
		if !dialDone {
			return false
		}
		if dialErr != nil {
			return true
		}
		if o.tamperPacket && sTotal > 0 {
			return cliRdDone
		}
		return srvUp && cliWrDone && srvWrDone && cliGot == sTotal && srvGot == cTotal
	}, 10*time.Minute)
	if stop == sim.StopCond && dialErr == nil {
		// let control packets still in flight (ticket, seed) reach the client
		c.S.Run(func() bool { return false }, time.Second)
	}
	defer func() {
		ending = true
		link.A.Close()
		link.B.Close()
		c.S.Run(func() bool { return false }, time.Second)
	}()
	if c.S.Violated() {
		return false
	}
	if w.lenient {
		return true
	}
	via := "uniformdh"
	if sawTicket != nil {
		via = "ticket"
		c.Feature("ticket-handshake-used")
		// (its age when it was presented: the connection itself may have lasted
		// minutes since)
		if age := presentedAt.Sub(issuedAt[sawTicket]); age > 7*24*time.Hour+time.Minute {
			c.Violate("C15/expired-ticket-used", "%v: the client presented a session ticket %v after it was issued (lifetime is 7 days); it must fall back to UniformDH", w.hist, age)
			return false
		}
	}
	w.hist[len(w.hist)-1] += "=" + via
	switch {
	case expectFail && sawTicket != nil:
		// a ticket handshake involves neither the password nor a server reply
		if dialErr != nil {
			c.Violate("C15/ticket-dial-failed", "%v: Dial with a valid ticket failed: %v", w.hist, dialErr)
			return false
		}
	case expectFail:
		if !dialDone {
			c.Violate("C15/dial-never-returned", "%v: Dial still pending after 10 virtual minutes", w.hist)
			return false
		}
		if dialErr == nil {
			c.Violate("C15/completed-with-bad-handshake", "%v: Dial completed although the secret was wrong / the reply was modified", w.hist)
			return false
		}
		if dialTook > 61*time.Second {
			c.Violate("C15/late-failure", "%v: Dial failed only after %v", w.hist, dialTook)
			return false
		}
	default:
		if o.tamperPacket && dialDone && dialErr != nil && tamperedAt >= 0 {
			// the modified packet rode behind the handshake reply and was
			// rejected while the handshake call was still in progress
			c.Feature("tampered-packet-rejected-during-dial")
			return true
		}
		if !dialDone || dialErr != nil {
			c.Violate("C15/handshake-failed", "%v (reply %v bytes split at %v): Dial against a conforming server: done=%v err=%v; server side: %v", w.hist, c.Info["reply_len"], c.Info["split_at"], dialDone, dialErr, srvErr)
			return false
		}
		if o.tamperPacket && sTotal > 0 {
			if !cliRdDone {
				c.Violate("C15/tampering-not-reported", "%v: a modified packet was delivered to the client and Read reported no error", w.hist)
				return false
			}
			if cliErr == io.EOF {
				c.Violate("C15/tampering-reported-as-eof", "%v: a modified packet surfaced as plain EOF", w.hist)
				return false
			}
			return true
		}
		if stop == sim.StopTime {
			c.Violate("C15/stalled-bytes", "%v: quiet for 10 virtual minutes and incomplete: client read %d of %d, server decoded %d of %d (client writer done %v)", w.hist, cliGot, sTotal, srvGot, cTotal, cliWrDone)
			return false
		}
	}
	return true
}

func runC15(c *harness.Ctx) {
	maybeYields(c)
	steerPads(c, obfsref.SSMaxPad+1, obfsref.SSMaxHandshake-obfsref.SSTicketLen-2*obfsref.SSMacLen+1)
	t := c.T
	w := newSSWorld(c)
	defer simos.Deactivate()
	d, server := w.d, w.server
	if err := w.newFactory(); err != nil {
		c.Violate("C15/client-factory-failed", "first start: ClientFactory: %v", err)
		return
	}
	if t.Draw("concurrent", 6) == 5 {
		runC15Concurrent(c, w)
		return
	}
	// ---- history
	maxSteps := 6
	if c.Tier == "thorough" {
		maxSteps = 10
	}
	nSteps := 1 + t.Draw("nsteps", maxSteps)
	// one run in four follows the life of one ticket: issue it, let time pass in
	// two stretches that are each shorter than the lifetime (and may together
	// exceed it), restart in between or not, connect again
	var script []int
	if t.Draw("ticket-life", 4) == 3 {
		script = []int{100, 7}
		if t.Draw("life.restart1", 2) == 1 {
			script = append(script, 6)
		}
		script = append(script, 7)
		if t.Draw("life.restart2", 2) == 1 {
			script = append(script, 6)
		}
		script = append(script, 101)
		nSteps = len(script)
		c.Feature("ticket-life-history")
	}
	for i := 0; i < nSteps && !c.S.Violated(); i++ {
		step := 0
		if script != nil {
			step = script[i]
		} else {
			step = t.Draw("step", 8)
		}
		switch step {
		case 100, 101:
			// (scripted) a clean connection; the first one is issued a ticket
			if !w.connect(ssConnectOpts{issueTicket: step == 100 || t.Draw("issue", 2) == 1}) {
				return
			}
		case 0, 1, 2, 3:
			o := ssConnectOpts{issueTicket: t.Draw("issue", 2) == 1, sendSeed: t.Draw("seed", 2) == 1}
			switch t.Draw("bad", 8) {
			case 5:
				o.wrongSecret = true
			case 6:
				o.tamperReply = 1 + t.Draw("tfield", 4)
			case 7:
				o.tamperPacket = true
			}
			if !w.connect(o) {
				return
			}
		case 4:
			c.S.Sleep(7*24*time.Hour + time.Second)
			w.hist = append(w.hist, "advance 7d+1s")
		case 5:
			d.Delete(ssDir + "/scramblesuit_tickets.json")
			w.hist = append(w.hist, "delete ticket file")
		case 6:
			w.hist = append(w.hist, "restart")
			if err := w.newFactory(); err != nil {
				c.Violate("C15/client-factory-failed", "%v: ClientFactory: %v", w.hist, err)
				return
			}
		case 7:
			hrs := 1 + t.Draw("hrs", 100)
			switch t.Draw("hrsk", 4) {
			case 2:
				hrs = 85 // a little more than half the lifetime
			case 3:
				hrs = 167 // one hour short of it
			}
			c.S.Sleep(time.Duration(hrs) * time.Hour)
			w.hist = append(w.hist, fmt.Sprintf("advance %dh", hrs))
		}
		// tickets: at most one use each, never after expiry
		for _, tk := range server.Tickets {
			if tk.Uses > 1 {
				c.Violate("C15/ticket-reused", "%v: the reference server saw the same session ticket in %d handshakes", w.hist, tk.Uses)
				return
			}
		}
	}
	c.Info["history"] = w.hist
	c.Reached, c.Nontrivial = true, w.nConn > 0
}
