package disk

import (
	"encoding/base32"
	"fmt"
	"net"
	"time"

	pt "gitlab.torproject.org/tpo/anti-censorship/pluggable-transports/goptlib"

	"verifsim/harness"
	"verifsim/ref/obfsref"
)

// runC15Concurrent: several connections to one bridge are made at the same
// time from one client factory that holds one session ticket.  The ticket may
// be presented by at most one of them (the others fall back to UniformDH),
// every connection works, the tickets the server hands out meanwhile end up in
// a store that the next start can read.  The ticket code is woven, so the
// scheduler interleaves the connections statement by statement.
func runC15Concurrent(c *harness.Ctx, w *ssWorld) {
	t := c.T
	c.Feature("concurrent-connections")
	if !w.connect(ssConnectOpts{issueTicket: true}) {
		return
	}
	if t.Draw("cc.restart", 2) == 1 {
		w.hist = append(w.hist, "restart")
		if err := w.newFactory(); err != nil {
			c.Violate("C15/client-factory-failed", "%v: ClientFactory: %v", w.hist, err)
			return
		}
	}
	n := 2 + t.Draw("cc.n", 2)
	w.hist = append(w.hist, fmt.Sprintf("%d connections at once", n))
	type res struct {
		dialDone, allDone bool
		err               error
		via               string
		got               int
	}
	rs := make([]*res, n)
	ending := false
	for i := range rs {
		r := &res{}
		rs[i] = r
		name := fmt.Sprintf("cc%d", i)
		link := c.Net.NewLink(name, "r"+name)
		issue := t.Draw("cc.issue", 2) == 1
		msg := []byte(fmt.Sprintf("hello from the bridge to connection %d", i))
		c.S.Go("r/accept"+name, func() {
			var buf []byte
			tmp := make([]byte, 4096)
			priv := make([]byte, 192)
			c.Rand.Fill("ref.key", priv)
			key := obfsref.NewUDH(priv, false)
			pad := make([]byte, t.Draw("cc.spad", 200))
			c.Rand.Fill("ref.pad", pad)
			link.B.SetReadDeadline(time.Now().Add(90 * time.Second))
			for {
				k, err := link.B.Read(tmp)
				buf = append(buf, tmp[:k]...)
				if k > 0 {
					a, aerr := w.server.Accept(buf, nowHour(), key, pad)
					if aerr == nil {
						link.B.SetReadDeadline(time.Time{})
						r.via = "uniformdh"
						if a.Ticket != nil {
							r.via = "ticket"
						}
						out := append([]byte(nil), a.Reply...)
						if issue {
							tk := &obfsref.SSTicket{Key: make([]byte, 32), Ticket: make([]byte, 112)}
							c.Rand.Fill("ref.ticket", tk.Key)
							c.Rand.Fill("ref.ticket", tk.Ticket)
							w.server.Tickets = append(w.server.Tickets, tk)
							w.issuedAt[tk] = time.Now()
							out = append(out, a.Session.Packet(obfsref.SSFlagNewTicket, append(append([]byte{}, tk.Key...), tk.Ticket...), 0)...)
						}
						out = append(out, a.Session.Packet(obfsref.SSFlagPayload, msg, t.Draw("cc.pad", 30))...)
						link.B.Write(out)
						for {
							if _, err := link.B.Read(tmp); err != nil {
								return
							}
						}
					}
					if aerr != obfsref.ErrSSNeedMore {
						return
					}
				}
				if err != nil {
					return
				}
			}
		})
		c.S.Go(name+"/dial", func() {
			defer func() { r.allDone = true }()
			args := &pt.Args{}
			args.Add("password", base32.StdEncoding.EncodeToString(w.secret))
			pa, err := w.cf.ParseArgs(args)
			if err != nil {
				r.err, r.dialDone = err, true
				return
			}
			conn, err := w.cf.Dial("tcp", "10.0.0.2:443", func(string, string) (net.Conn, error) { return link.A, nil }, pa)
			r.err, r.dialDone = err, true
			if err != nil {
				return
			}
			conn.Write([]byte("hello bridge"))
			buf := make([]byte, 256)
			for r.got < len(msg) {
				k, err := conn.Read(buf[r.got:])
				r.got += k
				if err != nil {
					if !ending {
						r.err = err
					}
					return
				}
			}
			if string(buf[:r.got]) != string(msg) {
				c.Violate("C15/altered-data-delivered", "%v: connection %d read %q, the server sent %q", w.hist, i, buf[:r.got], msg)
			}
		})
	}
	c.S.Run(func() bool {
		for _, r := range rs {
			if !r.allDone {
				return false
			}
		}
		return true
	}, 3*time.Minute)
	// let ticket packets that are still in flight be stored
	c.S.Run(func() bool { return false }, time.Second)
	ending = true
	if c.S.Violated() {
		return
	}
	viaTicket := 0
	for i, r := range rs {
		if !r.allDone || r.err != nil {
			c.Violate("C15/handshake-failed", "%v: connection %d of %d made at the same time failed or hangs (dial returned %v, err %v, via %q, read %d bytes)", w.hist, i, n, r.dialDone, r.err, r.via, r.got)
			return
		}
		if r.via == "ticket" {
			viaTicket++
		}
	}
	for _, tk := range w.server.Tickets {
		if tk.Uses > 1 {
			c.Violate("C15/ticket-reused", "%v: the reference server saw the same session ticket in %d handshakes", w.hist, tk.Uses)
			return
		}
	}
	if viaTicket > 0 {
		c.Feature("concurrent-one-used-the-ticket")
	}
	// the next start reads whatever the concurrent connections left behind
	w.hist = append(w.hist, "restart")
	if err := w.newFactory(); err != nil {
		c.Violate("C15/client-factory-failed", "%v: ClientFactory: %v", w.hist, err)
		return
	}
	if !w.connect(ssConnectOpts{}) {
		return
	}
	for _, tk := range w.server.Tickets {
		if tk.Uses > 1 {
			c.Violate("C15/ticket-reused", "%v: the reference server saw the same session ticket in %d handshakes", w.hist, tk.Uses)
			return
		}
	}
	c.Info["history"] = w.hist
	c.Reached, c.Nontrivial = true, true
}

var _ = harness.RunOnce
