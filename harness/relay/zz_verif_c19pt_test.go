package main

import (
	"encoding/hex"
	"fmt"
	"net"
	"os"
	"sync"
	"time"

	pt "gitlab.torproject.org/tpo/anti-censorship/pluggable-transports/goptlib"

	"gitlab.com/yawning/obfs4.git/transports"

	"verifsim/harness"
	"verifsim/simnet"
)

var (
	ptStateOnce sync.Once
	ptStateDir  string
)

// ptScratchDir: the obfs4 server factory insists on a state directory on the
// real file system (identities are passed explicitly, its contents never
// influence a run); on a memory file system if there is one.
func ptScratchDir() string {
	ptStateOnce.Do(func() {
		d, err := os.MkdirTemp("/dev/shm", "verif-relay-state-")
		if err != nil {
			wd, werr := os.Getwd()
			if werr != nil {
				panic(werr)
			}
			if d, err = os.MkdirTemp(wd, "relay-state-"); err != nil {
				panic(err)
			}
		}
		ptStateDir = d
	})
	return ptStateDir
}

// runRelayRealPT: copyLoop between a plain connection (the ORPort side) and a
// REAL transport connection - an obfs4 server connection whose peer is a real
// obfs4 client over the simulated network.  The stub connections of the other
// parts hand out min(len(p), pending) bytes and report the end only once they
// are drained; a transport connection decodes a whole network read at once and
// may return the end of the stream together with its last bytes.  The client
// sends bursts of every size class (also 16 .. 23 KiB, one network read of the
// bridge), optionally after the ORPort side has answered, and then closes;
// everything it wrote must come out at the ORPort side before the relay tears
// the pair down.
func runRelayRealPT(c *harness.Ctx) {
	t := c.T
	c.Info["part"] = "relay-real-obfs4"
	hexOf := func(stream string, n int) string {
		b := make([]byte, n)
		c.Rand.Fill(stream, b)
		return hex.EncodeToString(b)
	}
	iat := []int{0, 0, 0, 1}[t.Draw("pt.iat", 4)]
	args := &pt.Args{}
	args.Add("node-id", hexOf("cfg.nodeid", 20))
	args.Add("private-key", hexOf("cfg.key", 32))
	args.Add("drbg-seed", hexOf("cfg.seed", 24))
	args.Add("iat-mode", fmt.Sprint(iat))
	tr := transports.Get("obfs4")
	sf, err := tr.ServerFactory(ptScratchDir(), args)
	if err != nil {
		panic(err)
	}
	cf, err := tr.ClientFactory("")
	if err != nil {
		panic(err)
	}
	lp := c.Net.NewLink("client", "relay") // obfs4 client <-> relay side b (pt side)
	lo := c.Net.NewLink("or", "relay")     // ORPort <-> relay side a
	for _, p := range []*simnet.Pipe{lp.AB, lp.BA, lo.AB, lo.BA} {
		p.Policy = t.Draw("pt.chunk", simnet.NumChunk)
		p.MaxRead = []int{0, 0, 0, 4096}[t.Draw("pt.maxread", 4)]
		p.Latency = []time.Duration{0, 0, time.Millisecond, 20 * time.Millisecond}[t.Draw("pt.lat", 4)]
		p.ErrWithData = t.Draw("pt.errwithdata", 2) == 1
	}
	if t.Draw("pt.whole", 2) == 1 {
		// every client burst arrives as one piece
		lp.AB.Policy, lp.AB.MaxRead = simnet.ChunkAll, 0
	}
	// the client's writes: the last one is the interesting one
	var plan []int
	for i, n := 0, t.Draw("pt.n", 4); i < n; i++ {
		plan = append(plan, []int{1, 1000, 5000, 40000}[t.Draw("pt.sz", 4)])
	}
	switch t.Draw("pt.last", 4) {
	case 0:
		plan = append(plan, 1+t.Draw("pt.last.small", 16384))
	case 1, 2:
		plan = append(plan, 16000+t.Draw("pt.last.mid", 8000)) // around one bridge-side network read
	default:
		plan = append(plan, 23000+t.Draw("pt.last.big", 80000))
	}
	reverse := int64([]int{0, 0, 1000, 50000}[t.Draw("pt.reverse", 4)]) // the ORPort side answers first
	orSlow := []int{0, 0, 5}[t.Draw("pt.orslow", 3)]
	closeDelay := []time.Duration{0, 0, 0, time.Millisecond, 3 * time.Second}[t.Draw("pt.closedelay", 5)]
	c.Info["client_writes"], c.Info["reverse_bytes"], c.Info["iat"], c.Info["close_delay"] = plan, reverse, iat, closeDelay.String()

	// which end of the obfs4 pair the relay holds: the bridge's (serverHandler)
	// or the client's (clientHandler; the far end is then the bridge)
	relayIsClient := t.Draw("pt.relay-role", 3) == 2
	c.Info["relay_holds"] = map[bool]string{false: "obfs4 server conn", true: "obfs4 client conn"}[relayIsClient]
	dial := func(under net.Conn) (net.Conn, error) {
		pa, err := cf.ParseArgs(sf.Args())
		if err != nil {
			panic(err)
		}
		return cf.Dial("tcp", "x:1", func(string, string) (net.Conn, error) { return under, nil }, pa)
	}
	farConnect, relayConnect := dial, sf.WrapConn
	if relayIsClient {
		farConnect, relayConnect = sf.WrapConn, dial
		c.Feature("real-transport-relay-holds-client-conn")
	}
	var produced, orGot, clGot int64
	var clientUp, clientClosed, orDone, relayUp bool
	var clientClosedAt time.Duration
	ending := false
	c.S.Go("client/dial", func() {
		conn, err := farConnect(lp.A)
		if err != nil {
			if !ending {
				c.Violate("C19/harness", "obfs4 far end handshake: %v", err)
			}
			return
		}
		clientUp = true
		gotAll := make(chan struct{})
		if reverse == 0 {
			close(gotAll)
		}
		c.S.Go("client/reader", func() {
			buf := make([]byte, 32768)
			for {
				n, err := conn.Read(buf)
				for j := 0; j < n; j++ {
					if buf[j] != vpat(0, clGot+int64(j)) && !ending {
						c.Violate("C19/relay-altered-bytes", "the obfs4 client received byte %d that the ORPort side did not produce at that position", clGot+int64(j))
						return
					}
				}
				before := clGot
				clGot += int64(n)
				if before < reverse && clGot >= reverse {
					close(gotAll)
				}
				if err != nil {
					return
				}
			}
		})
		for i, n := range plan {
			if i == len(plan)-1 {
				<-gotAll
				c.S.Park("client", "last-burst")
			}
			buf := make([]byte, n)
			for j := range buf {
				buf[j] = vpat(1, produced+int64(j))
			}
			k, err := conn.Write(buf)
			produced += int64(k)
			if err != nil {
				if !ending {
					c.Violate("C19/harness", "obfs4 client Write: %v", err)
				}
				return
			}
		}
		if closeDelay > 0 {
			c.S.Sleep(closeDelay)
		}
		// not before the relay's own handshake call has returned: with the end
		// of the stream delivered in the same read as the last handshake bytes
		// the obfs4 handshake code drops those bytes (DESIGN.md 9.7; a real TCP
		// socket never does that) - the data phase is what this part is about
		for k := 0; k < 3000 && !relayUp; k++ {
			c.S.Sleep(10 * time.Millisecond)
		}
		conn.Close()
		clientClosed, clientClosedAt = true, c.S.Now()
	})
	c.S.Go("or/producer", func() {
		var off int64
		for off < reverse {
			k := int64(1 + t.Draw("pt.or.chunk", 9000))
			if k > reverse-off {
				k = reverse - off
			}
			buf := make([]byte, k)
			for j := range buf {
				buf[j] = vpat(0, off+int64(j))
			}
			if _, err := lo.A.Write(buf); err != nil {
				return
			}
			off += k
		}
	})
	c.S.Go("or/consumer", func() {
		buf := make([]byte, 8192)
		for {
			if orSlow > 0 {
				c.S.Sleep(time.Duration(orSlow) * time.Millisecond)
			}
			n, err := lo.A.Read(buf)
			for j := 0; j < n; j++ {
				if buf[j] != vpat(1, orGot+int64(j)) {
					c.Violate("C19/relay-altered-bytes", "the ORPort side received byte %d that the obfs4 client did not write at that position", orGot+int64(j))
					return
				}
			}
			orGot += int64(n)
			if err != nil {
				orDone = true
				return
			}
		}
	})
	var returned bool
	var ret error
	c.S.Go("relay/copyLoop", func() {
		conn, err := relayConnect(lp.B)
		if err != nil {
			if !ending {
				c.Violate("C19/harness", "obfs4 relay-side handshake: %v", err)
			}
			return
		}
		relayUp = true
		ret = copyLoop(lo.B, conn)
		returned = true
	})
	c.S.MaxSteps *= 4
	stop := c.S.Run(func() bool { return returned && orDone }, 10*time.Minute)
	c.Reached = clientUp
	c.Nontrivial = clientClosed
	ending = true
	if c.S.Violated() {
		return
	}
	if !returned || !orDone {
		c.Violate("C19/relay-never-returned", "obfs4 client closed at %v; 10 virtual minutes later copyLoop returned=%v, the ORPort side saw the end=%v (stop=%v)", clientClosedAt, returned, orDone, stop)
		return
	}
	if !lo.B.Closed() || !lp.B.Closed() {
		c.Violate("C19/conn-left-open", "copyLoop returned with the ORPort-side conn closed=%v, the transport's conn closed=%v", lo.B.Closed(), lp.B.Closed())
		return
	}
	_ = ret
	// the obfs4 client wrote everything, was answered before its last burst, and
	// closed; the ORPort side was healthy throughout
	if orGot != produced {
		c.Violate("C19/bytes-lost-at-end", "the obfs4 client wrote %d bytes (writes %v) and closed while the ORPort side was healthy; only %d came out of the relay before it tore the pair down", produced, plan, orGot)
		return
	}
	c.Feature("real-transport-complete-forwarding-checked")
	if lp.AB.ErrWithData {
		c.Feature("real-transport-end-may-arrive-with-last-bytes")
	}
}
