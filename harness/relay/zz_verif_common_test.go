// Engine "relay": these files are injected (build overlay) into package main
// of obfs4proxy, so that copyLoop and termMonitor - which are not exported -
// run unmodified inside the simulation.
package main

import (
	"fmt"
	"net"

	pt "gitlab.torproject.org/tpo/anti-censorship/pluggable-transports/goptlib"

	"os"
	"os/signal"
	"syscall"
	"testing"

	"verifsim/harness"
)

var verifProps = map[string]*harness.Prop{}

// verifDialOr stands in for pt.DialOr in serverHandler (the build weaves that
// one call: the ORPort is reached over a real socket otherwise).  Scenarios set
// it for the duration of a run.
var verifDialOr = func(info *pt.ServerInfo, addr, name string) (net.Conn, error) {
	return nil, fmt.Errorf("verif: no simulated ORPort in this scenario")
}

func TestVerif(t *testing.T) {
	// newTermMonitor calls signal.Notify: let the runtime set up its signal
	// goroutine and channels out here, not inside a synctest bubble
	warm := make(chan os.Signal, 1)
	signal.Notify(warm, syscall.SIGUSR2)
	signal.Stop(warm)
	harness.Main(t, &harness.Env{}, verifProps)
}
