// Engine "relay": these files are injected (build overlay) into package main
// of obfs4proxy, so that copyLoop and termMonitor - which are not exported -
// run unmodified inside the simulation.
package main

import (
	"os"
	"os/signal"
	"syscall"
	"testing"

	"verifsim/harness"
)

var verifProps = map[string]*harness.Prop{}

func TestVerif(t *testing.T) {
	// newTermMonitor calls signal.Notify: let the runtime set up its signal
	// goroutine and channels out here, not inside a synctest bubble
	warm := make(chan os.Signal, 1)
	signal.Notify(warm, syscall.SIGUSR2)
	signal.Stop(warm)
	harness.Main(t, &harness.Env{}, verifProps)
}
