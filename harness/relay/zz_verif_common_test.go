// Engine "relay": these files are injected (build overlay) into package main
// of obfs4proxy, so that copyLoop and termMonitor - which are not exported -
// run unmodified inside the simulation.
package main

import (
	"testing"

	"verifsim/harness"
)

var verifProps = map[string]*harness.Prop{}

func TestVerif(t *testing.T) {
	harness.Main(t, &harness.Env{}, verifProps)
}
