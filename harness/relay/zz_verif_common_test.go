// Engine "relay": these files are injected (build overlay) into package main
// of obfs4proxy, so that copyLoop and termMonitor - which are not exported -
// run unmodified inside the simulation.
package main

import (
	"fmt"
	"io"
	"net"

	pt "gitlab.torproject.org/tpo/anti-censorship/pluggable-transports/goptlib"

	"os"
	"os/signal"
	"syscall"
	"testing"

	"gitlab.com/yawning/obfs4.git/common/csrand"
	"gitlab.com/yawning/obfs4.git/transports"

	"verifsim/harness"
)

var origCsrandReader = csrand.Reader

// the entropy seam of the transports (the relay-with-a-real-transport scenario)
var verifEnv = &harness.Env{
	SetEntropy: func(r io.Reader) {
		if r == nil {
			csrand.Reader = origCsrandReader
		} else {
			csrand.Reader = r
		}
	},
}

var verifProps = map[string]*harness.Prop{}

// verifDialOr stands in for pt.DialOr in serverHandler (the build weaves that
// one call: the ORPort is reached over a real socket otherwise).  Scenarios set
// it for the duration of a run.
var verifDialOr = func(info *pt.ServerInfo, addr, name string) (net.Conn, error) {
	return nil, fmt.Errorf("verif: no simulated ORPort in this scenario")
}

func TestVerif(t *testing.T) {
	// newTermMonitor calls signal.Notify: let the runtime set up its signal
	// goroutine and channels out here, not inside a synctest bubble
	warm := make(chan os.Signal, 1)
	signal.Notify(warm, syscall.SIGUSR2)
	signal.Stop(warm)
	if err := transports.Init(); err != nil {
		t.Fatal(err)
	}
	defer func() {
		if ptStateDir != "" {
			os.RemoveAll(ptStateDir)
		}
	}()
	harness.Main(t, verifEnv, verifProps)
}
