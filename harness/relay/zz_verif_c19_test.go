package main

import (
	"fmt"
	"io"
	"net"
	"os"
	"os/signal"
	"syscall"
	"time"

	pt "gitlab.torproject.org/tpo/anti-censorship/pluggable-transports/goptlib"

	"gitlab.com/yawning/obfs4.git/transports/base"

	"verifsim/harness"
	"verifsim/sim"
	"verifsim/simnet"
	"verifsim/verifrt"
)

func init() {
	verifProps["C19"] = &harness.Prop{ID: "C19", Variant: "B1(in-package)+select-seam", Run: runC19}
}

func vpat(d int, i int64) byte {
	x := uint64(i)*0x9e3779b97f4a7c15 + uint64(d)*0x632be59bd9b4e019
	x ^= x >> 29
	return byte(x ^ x>>8 ^ x>>17 ^ x>>43)
}

func runC19(c *harness.Ctx) {
	switch c.T.Draw("part", 7) {
	case 0, 1:
		runRelay(c)
	case 2:
		runRelayTransient(c)
	case 5:
		runAcceptLoops(c)
	case 6:
		runRelayRealPT(c)
	default:
		runTermMon(c)
	}
}

// runRelayTransient: one call of the relay on one of its two connections fails
// with an error that calls itself temporary (a timeout), although the
// connection would work again.  For the relay that side has ended with an
// error: both connections are closed and copyLoop returns; whatever was
// forwarded is an in-order prefix without holes.
func runRelayTransient(c *harness.Ctx) {
	t := c.T
	c.Info["part"] = "relay-transient-error"
	la := c.Net.NewLink("A", "relay")
	lb := c.Net.NewLink("B", "relay")
	for _, p := range []*simnet.Pipe{la.AB, la.BA, lb.AB, lb.BA} {
		p.Policy = t.Draw("chunk", simnet.NumChunk)
		p.MaxRead = []int{0, 0, 100, 4096}[t.Draw("maxread", 4)]
		p.Latency = []time.Duration{0, 0, time.Millisecond}[t.Draw("lat", 3)]
	}
	total := []int64{5000, 70000, 200000}[t.Draw("total", 3)]
	at := int64(t.Draw("at", int(total)))
	// where the transient condition strikes: the relay's write towards B, or
	// its read from A
	kind := []string{simnet.FaultWriteTemp, simnet.FaultReadTemp}[t.Draw("kind", 2)]
	if kind == simnet.FaultWriteTemp {
		lb.BA.AddFault(simnet.Fault{Kind: kind, Offset: at})
	} else {
		la.AB.AddFault(simnet.Fault{Kind: kind, Offset: at})
	}
	reverse := t.Draw("reverse", 2) == 1 // B talks to A as well
	c.Info["fault"], c.Info["at"], c.Info["total"], c.Info["reverse_traffic"] = kind, at, total, reverse
	produce := func(name string, conn *simnet.Conn, dir int, n int64) {
		c.S.Go(name+"/producer", func() {
			var off int64
			for off < n {
				k := int64(1 + t.Draw(name+".chunk", 9000))
				if k > n-off {
					k = n - off
				}
				buf := make([]byte, k)
				for j := range buf {
					buf[j] = vpat(dir, off+int64(j))
				}
				w, err := conn.Write(buf)
				off += int64(w)
				if err != nil {
					return
				}
			}
		})
	}
	got := map[string]*int64{"A": new(int64), "B": new(int64)}
	consume := func(name string, conn *simnet.Conn, dir int) {
		c.S.Go(name+"/consumer", func() {
			buf := make([]byte, 8192)
			for {
				n, err := conn.Read(buf)
				for j := 0; j < n; j++ {
					if buf[j] != vpat(dir, *got[name]+int64(j)) {
						c.Violate("C19/relay-altered-bytes", "%s received byte %d that the other side did not produce at that position (a %s struck at offset %d of the A->B stream)", name, *got[name]+int64(j), kind, at)
						return
					}
				}
				*got[name] += int64(n)
				if err != nil {
					return
				}
			}
		})
	}
	produce("A", la.A, 0, total)
	if reverse {
		produce("B", lb.A, 1, total)
	}
	consume("A", la.A, 1)
	consume("B", lb.A, 0)
	returned := false
	var firedAt, returnedAt time.Duration = -1, -1
	c.S.Go("relay/copyLoop", func() {
		copyLoop(la.B, lb.B)
		returned, returnedAt = true, c.S.Now()
	})
	fired := func() bool { return c.S.Counters["fault."+kind] > 0 }
	c.S.Run(func() bool {
		if fired() && firedAt < 0 {
			firedAt = c.S.Now()
		}
		return returned
	}, 5*time.Minute)
	c.Reached, c.Nontrivial = true, fired()
	if c.S.Violated() {
		return
	}
	if !fired() {
		return // the stream was shorter than the offset: nothing to judge
	}
	c.Feature("relay-transient-" + kind)
	if !returned {
		c.Violate("C19/relay-never-returned", "a %s struck the relay at offset %d of the A->B stream (virtual time %v); five virtual minutes later copyLoop is still running (B received %d, A received %d)", kind, at, firedAt, *got["B"], *got["A"])
		return
	}
	if !la.B.Closed() || !lb.B.Closed() {
		c.Violate("C19/conn-left-open", "copyLoop returned after a %s with side a closed=%v, side b closed=%v", kind, la.B.Closed(), lb.B.Closed())
	}
	_ = returnedAt
}

// ---- relay ---------------------------------------------------------------------

type farEnd struct {
	name          string
	conn          *simnet.Conn
	dirOut        int
	dirIn         int
	chunks        []int
	pauses        []int
	endHow        string // "eof", "close", "rst", "stay"
	produced      int64  // bytes handed to Write successfully
	ended         bool   // finished producing and performed its end action
	endedAt       time.Duration
	gotAtEnd      int64 // bytes this far end had received when it performed its end action
	got           int64
	rdErr         error
	rdDone        bool
	rdStopped     bool
	slowRead      int   // ms between reads
	stopReadAfter int64 // -1: keeps reading; otherwise stops for good after that many bytes
	endDelay      time.Duration
	failed        bool
}

func runRelay(c *harness.Ctx) {
	t := c.T
	c.Info["part"] = "relay"
	la := c.Net.NewLink("A", "relay") // far end A <-> relay side a (SOCKS / ORPort side)
	lb := c.Net.NewLink("B", "relay") // far end B <-> relay side b (pt side)
	for _, p := range []*simnet.Pipe{la.AB, la.BA, lb.AB, lb.BA} {
		p.Policy = t.Draw("chunk", simnet.NumChunk)
		p.MaxRead = []int{0, 0, 1, 100, 4096}[t.Draw("maxread", 5)]
		p.SndBuf = []int{256 << 10, 256 << 10, 4096, 100}[t.Draw("sndbuf", 4)]
		p.Latency = []time.Duration{0, 0, time.Millisecond, 20 * time.Millisecond}[t.Draw("lat", 4)]
		p.ErrWithData = t.Draw("errwithdata", 2) == 1
	}
	mkFar := func(name string, conn *simnet.Conn, dout, din int) *farEnd {
		f := &farEnd{name: name, conn: conn, dirOut: dout, dirIn: din}
		n := t.Draw(name+".n", 6)
		for i := 0; i < n; i++ {
			f.chunks = append(f.chunks, []int{1, 10, 1000, 5000, 40000}[t.Draw(name+".sz", 5)])
			f.pauses = append(f.pauses, []int{0, 0, 1, 50}[t.Draw(name+".pause", 4)])
		}
		f.endHow = []string{"eof", "close", "rst", "stay", "stay"}[t.Draw(name+".end", 5)]
		f.slowRead = []int{0, 0, 0, 5}[t.Draw(name+".slow", 4)]
		// a far end that stops reading altogether after some bytes: the relay's
		// writes towards it eventually block on the full send buffer
		f.stopReadAfter = []int64{-1, -1, -1, 0, 1000}[t.Draw(name+".stopread", 5)]
		f.endDelay = []time.Duration{0, 0, 3 * time.Second, 30 * time.Second}[t.Draw(name+".enddelay", 4)]
		return f
	}
	A := mkFar("A", la.A, 0, 1)
	B := mkFar("B", lb.A, 1, 0)
	// a consumer that pauses between reads must not also be limited to tiny
	// reads, or draining 120000 bytes takes longer than the run's horizon
	if A.slowRead > 0 {
		la.BA.MaxRead = 0
	}
	if B.slowRead > 0 {
		lb.BA.MaxRead = 0
	}
	if A.endHow == "stay" && B.endHow == "stay" {
		A.endHow = "eof"
	}
	c.Info["A"] = fmt.Sprintf("chunks %v then %s", A.chunks, A.endHow)
	c.Info["B"] = fmt.Sprintf("chunks %v then %s", B.chunks, B.endHow)
	c.Feature("endA-" + A.endHow)
	ending := false
	var firstEnd *farEnd
	run := func(f *farEnd, relayOut *simnet.Pipe) {
		c.S.Go(f.name+"/producer", func() {
			for i, n := range f.chunks {
				if f.pauses[i] > 0 {
					c.S.Sleep(time.Duration(f.pauses[i]) * time.Millisecond)
				}
				buf := make([]byte, n)
				for j := range buf {
					buf[j] = vpat(f.dirOut, f.produced+int64(j))
				}
				k, err := f.conn.Write(buf)
				f.produced += int64(k)
				if err != nil {
					f.failed = true
					return
				}
			}
			if f.endDelay > 0 {
				c.S.Sleep(f.endDelay)
			}
			// end action
			switch f.endHow {
			case "eof":
				f.conn.CloseWrite()
			case "close":
				f.conn.Close()
			case "rst":
				// everything produced so far is already in the relay's hands or in
				// flight; the reset arrives behind it
				relayOut.AddFault(simnet.Fault{Kind: simnet.FaultCutRST, Offset: f.produced})
			case "stay":
				return
			}
			if firstEnd == nil {
				firstEnd = f
			}
			f.ended, f.endedAt, f.gotAtEnd = true, c.S.Now(), f.got
		})
		c.S.Go(f.name+"/consumer", func() {
			buf := make([]byte, 8192)
			for {
				if f.stopReadAfter >= 0 && f.got >= f.stopReadAfter {
					f.rdStopped = true
					return
				}
				if f.slowRead > 0 {
					c.S.Sleep(time.Duration(f.slowRead) * time.Millisecond)
				}
				n, err := f.conn.Read(buf)
				for j := 0; j < n; j++ {
					if buf[j] != vpat(f.dirIn, f.got+int64(j)) {
						c.Violate("C19/relay-altered-bytes", "%s received byte %d that the other side did not produce at that position", f.name, f.got+int64(j))
						return
					}
				}
				f.got += int64(n)
				if err != nil {
					f.rdErr, f.rdDone = err, true
					return
				}
			}
		})
	}
	run(A, la.AB)
	run(B, lb.AB)
	var ret error
	returned := false
	var returnedAt time.Duration
	c.S.Go("relay/copyLoop", func() {
		ret = copyLoop(la.B, lb.B)
		returned, returnedAt = true, c.S.Now()
	})
	stop := c.S.Run(func() bool {
		return returned && (A.rdDone || A.rdStopped || A.endHow == "close") && (B.rdDone || B.rdStopped || B.endHow == "close")
	}, 10*time.Minute)
	if A.stopReadAfter >= 0 || B.stopReadAfter >= 0 {
		c.Feature("far-end-stops-reading")
	}
	c.Reached = true
	c.Nontrivial = len(A.chunks)+len(B.chunks) > 0
	if c.S.Violated() {
		ending = true
		return
	}
	if !returned {
		// The relay can only notice that a side has ended after it has
		// forwarded what that side sent before; if the opposite far end has
		// stopped reading, that forwarding (and with it the teardown) is
		// legitimately held up by back-pressure.
		if firstEnd == nil && (A.stopReadAfter >= 0 || B.stopReadAfter >= 0) {
			// nobody has ended yet: a producer is itself held up by back-pressure
			c.Feature("nobody-ended-under-back-pressure")
			ending = true
			return
		}
		if f := firstEnd; f != nil {
			other := B
			if f == B {
				other = A
			}
			if other.stopReadAfter >= 0 && f.conn.Out().Written > other.got {
				c.Feature("teardown-held-up-by-back-pressure")
				ending = true
				return
			}
		}
		c.Violate("C19/relay-never-returned", "copyLoop still running 10 virtual minutes after a side ended (A: %s ended=%v, B: %s ended=%v; stop=%v)", A.endHow, A.ended, B.endHow, B.ended, stop)
		return
	}
	if !la.B.Closed() || !lb.B.Closed() {
		c.Violate("C19/conn-left-open", "copyLoop returned with side a closed=%v, side b closed=%v", la.B.Closed(), lb.B.Closed())
		return
	}
	if A.got > B.conn.Out().Written || B.got > A.conn.Out().Written {
		c.Violate("C19/relay-invented-bytes", "A received %d of %d produced by B; B received %d of %d produced by A", A.got, B.conn.Out().Written, B.got, A.conn.Out().Written)
		return
	}
	// the side that ended first, while the other was healthy, must have had everything forwarded
	if f := firstEnd; f != nil && f.endHow != "rst" {
		other := B
		if f == B {
			other = A
		}
		// A full close is also an error for whatever the relay still tries to
		// write towards the closed side: that direction's failure may tear the
		// relay down first.  Completeness is demanded for a half-close, and
		// for a full close only when nothing travels towards the closed side.
		if f.endHow == "close" && other.conn.Out().Written > 0 {
			c.Feature("full-close-with-reverse-traffic")
			f = nil
		}
	}
	if f := firstEnd; f != nil && f.endHow != "rst" && !(f.endHow == "close" && func() bool {
		if f == A {
			return B.conn.Out().Written > 0
		}
		return A.conn.Out().Written > 0
	}()) {
		other := B
		if f == B {
			other = A
		}
		// "healthy": the other side does not end by itself, or does so only well
		// after everything in flight had time to be forwarded (if both ends
		// finish at about the same time the relay may legitimately see the
		// other one's end first)
		// "healthy": the other side does not end by itself, or does so only after
		// it has already received everything f produced.  (If it ends while f's
		// data is still being forwarded over a slow path, the relay sees *its*
		// end first and is right to tear down: which side "ended first" is a
		// matter of what the relay has observed, not of when the far ends acted.)
		otherHealthy := !other.failed && other.stopReadAfter < 0 && (other.endHow == "stay" || (other.ended && other.gotAtEnd == f.conn.Out().Written && other.endedAt > f.endedAt))
		if otherHealthy && other.got != f.produced && (other.endHow == "stay" || other.endHow == "eof") {
			c.Violate("C19/bytes-lost-at-end", "%s produced %d bytes and then ended (%s) while %s was healthy, but only %d were forwarded before the relay tore the connection down", f.name, f.produced, f.endHow, other.name, other.got)
			return
		}
		if otherHealthy {
			c.Feature("complete-forwarding-checked")
		}
	}
	// a side that ended with a reset may have lost bytes on its way to the relay;
	// what the relay did take from it before it saw the reset was forwarded
	// like everything else: it must come out on the healthy side
	if f := firstEnd; f != nil && f.endHow == "rst" {
		other, taken := B, la.AB.Consumed
		if f == B {
			other, taken = A, lb.AB.Consumed
		}
		otherHealthy := !other.failed && other.stopReadAfter < 0 && other.endHow == "stay" && other.conn.Out().Written == 0
		if otherHealthy && other.got != taken {
			c.Violate("C19/bytes-lost-at-end", "%s ended with a reset after the relay had read %d bytes from it; %s was healthy and silent, but only %d of them came out before the relay tore the connection down", f.name, taken, other.name, other.got)
			return
		}
		if otherHealthy {
			c.Feature("forwarding-of-bytes-read-before-a-reset-checked")
		}
	}
	if A.endHow != "rst" && B.endHow != "rst" && ret != nil && !A.failed && !B.failed && false {
		c.Violate("C19/spurious-error", "both sides ended cleanly, copyLoop returned %v", ret)
	}
	if ret != nil {
		c.Feature("copyLoop-returned-error")
	} else {
		c.Feature("copyLoop-returned-nil")
	}
	_ = returnedAt
	ending = true
	_ = ending
}

// ---- termination monitor ---------------------------------------------------------

// monitorYields switches the statement-level yields of the woven termmon.go on
// for this run (all of them, one in three, or none).
func monitorYields(c *harness.Ctx) {
	k := []int{0, 1, 1, 3}[c.T.Draw("termmon.yield-density", 4)]
	c.Info["termmon_yield_one_in"] = k
	if k == 0 {
		return
	}
	salt := c.T.Draw("termmon.yield-salt", 1<<16)
	c.S.YieldOn = func(site int) bool {
		x := uint32(site)*2654435761 + uint32(salt)*40503
		x ^= x >> 15
		return int(x%uint32(k)) == 0
	}
	verifrt.Activate(c.S)
	c.AtEnd(verifrt.Deactivate)
	c.Feature("termmon-yields-active")
}

func runTermMon(c *harness.Ctx) {
	t := c.T
	c.Info["part"] = "termmon"
	c.S.ArmSelect()
	monitorYields(c)
	// the monitor as obfs4proxy builds it (channel capacities are part of its
	// behaviour); signals are then offered on its channel by the simulation.
	// newTermMonitor also registers for real SIGINT/SIGTERM (none arrives) and,
	// on Linux, asks for SIGTERM on parent death.
	m := newTermMonitor()
	c.AtEnd(func() { signal.Stop(m.sigChan) })
	realHandlers := t.Draw("realhandlers", 2) == 1
	ors = map[net.Conn]*stubServerFactory{}
	orByAddr := func(addr string) *stubServerFactory {
		for conn, f := range ors {
			if conn.RemoteAddr().String() == addr {
				return f
			}
		}
		return nil
	}
	verifDialOr = func(info *pt.ServerInfo, addr, name string) (net.Conn, error) {
		f := orByAddr(addr)
		if f == nil {
			return nil, fmt.Errorf("verif: ORPort dial for an unknown connection %q", addr)
		}
		if f.inWork != nil {
			*f.inWork++
			f.c.S.Sleep(f.orWork / 2)
			*f.inWork--
		}
		if f.orFails {
			return nil, &net.OpError{Op: "dial", Net: "tcp", Err: syscall.ECONNREFUSED}
		}
		l := f.c.Net.NewLink(fmt.Sprintf("h%d", f.idx), fmt.Sprintf("or%d", f.idx))
		trackOut(l.A)
		f.c.S.Go(fmt.Sprintf("or%d/orport", f.idx), func() {
			buf := make([]byte, 64)
			if _, err := l.B.Read(buf); err != nil {
				return
			}
			l.B.Write([]byte("hello client"))
			f.c.S.Sleep(f.orWork)
			l.B.Close()
		})
		return l.A, nil
	}
	c.AtEnd(func() {
		verifDialOr = func(*pt.ServerInfo, string, string) (net.Conn, error) {
			return nil, fmt.Errorf("verif: no simulated ORPort in this scenario")
		}
	})
	if realHandlers {
		termMon = m // the package-level monitor the real handlers report to
		c.AtEnd(func() { termMon = nil })
	}
	c.Info["real_handlers"] = realHandlers
	nHandlers := t.Draw("nhandlers", 5)
	active := 0 // started-but-unfinished, as the handlers themselves see it
	inWork := 0 // real handlers that are inside their (stub) transport call right now
	var mainState string
	var firstSig, secondSig os.Signal
	mainDone := false
	sigSent := 0
	sendTERM := t.Draw("sigterm", 4) == 3
	lateHandlers := t.Draw("late", 3) == 2 // handlers that start after SIGINT (already accepted connections)
	c.Info["handlers"], c.Info["sigterm_follows"], c.Info["late_handlers"] = nHandlers, sendTERM, lateHandlers
	violatedEarly := ""
	// a handler that has returned has closed the connection it was given (and
	// whatever it opened itself: checked through outConns below)
	var outConns []*simnet.Conn
	checkClosed := func(conn *simnet.Conn, which string) {
		if !conn.Closed() {
			c.Violate("C19/handler-left-connection-open", "%s returned and left its connection open", which)
		}
	}
	trackOut = func(conn *simnet.Conn) { outConns = append(outConns, conn) }
	c.AtEnd(func() { trackOut = func(*simnet.Conn) {} })
	for i := 0; i < nHandlers; i++ {
		i := i
		startDelay := []int{0, 0, 1, 10, 100}[t.Draw("hstart", 5)]
		work := []int{0, 1, 10, 100, 1000}[t.Draw("hwork", 5)]
		if lateHandlers && i == nHandlers-1 {
			startDelay = 60
		}
		if realHandlers {
			// the real connection handlers of obfs4proxy with stub factories:
			// whatever path they take, starts and finishes must pair up
			kind := t.Draw("hkind", 8)
			c.S.Go(fmt.Sprintf("h%d/handler", i), func() {
				c.S.Sleep(time.Duration(startDelay) * time.Millisecond)
				active++
				defer func() { active-- }()
				switch kind {
				case 4, 5: // bridge side: handshake succeeds, the ORPort is dialled (and answers, or refuses)
					l := c.Net.NewLink(fmt.Sprintf("peer%d", i), fmt.Sprintf("h%d", i))
					c.S.Go(fmt.Sprintf("peer%d/client", i), func() {
						l.A.Write([]byte("hello relay"))
						buf := make([]byte, 64)
						for {
							if _, err := l.A.Read(buf); err != nil {
								l.A.Close()
								return
							}
						}
					})
					if kind == 4 {
						c.Feature("real-serverHandler-relayed")
					} else {
						c.Feature("real-serverHandler-orport-refused")
					}
					serverHandler(&stubServerFactory{c: c, delay: time.Duration(work/2) * time.Millisecond, inWork: &inWork, ok: true, orFails: kind == 5, orWork: time.Duration(work) * time.Millisecond, idx: i}, l.B, nil)
					checkClosed(l.B, "serverHandler (relay path)")
				case 0: // bridge side: the transport handshake fails (after a while)
					l := c.Net.NewLink(fmt.Sprintf("peer%d", i), fmt.Sprintf("h%d", i))
					c.Feature("real-serverHandler-failed-handshake")
					serverHandler(&stubServerFactory{c: c, delay: time.Duration(work) * time.Millisecond, inWork: &inWork}, l.B, nil)
					checkClosed(l.B, "serverHandler (failed handshake)")
				case 1: // client side: tor sends garbage instead of a SOCKS5 request
					l := c.Net.NewLink(fmt.Sprintf("tor%d", i), fmt.Sprintf("h%d", i))
					c.S.Go(fmt.Sprintf("tor%d/garbage", i), func() {
						l.A.Write([]byte{4, 1, 0, 80, 1, 2, 3, 4, 0})
						buf := make([]byte, 64)
						for {
							if _, err := l.A.Read(buf); err != nil {
								return
							}
						}
					})
					c.Feature("real-clientHandler-bad-socks")
					clientHandler(&stubClientFactory{c: c}, l.B, nil)
					checkClosed(l.B, "clientHandler (bad SOCKS request)")
				default: // client side: SOCKS5 ok, (stub) transport dial ok or refused, then a short relay
					l := c.Net.NewLink(fmt.Sprintf("tor%d", i), fmt.Sprintf("h%d", i))
					// kind 6: the transport rejects the bridge arguments; kind 7: tor
					// hangs up as soon as it has sent its request (the reply cannot go out)
					cf := &stubClientFactory{c: c, fail: kind == 3, argsFail: kind == 6, work: time.Duration(work) * time.Millisecond, idx: i, inWork: &inWork}
					c.S.Go(fmt.Sprintf("tor%d/socks", i), func() {
						l.A.Write([]byte{5, 1, 0})
						buf := make([]byte, 64)
						io.ReadFull(l.A, buf[:2])
						l.A.Write([]byte{5, 1, 0, 1, 10, 0, 0, 9, 1, 187})
						if kind == 7 {
							l.A.Close()
							return
						}
						if _, err := io.ReadFull(l.A, buf[:10]); err != nil || buf[1] != 0 {
							l.A.Close()
							return
						}
						l.A.Write([]byte("hello bridge"))
						n, _ := l.A.Read(buf) // the far end answers and then hangs up
						_ = n
						for {
							if _, err := l.A.Read(buf); err != nil {
								l.A.Close()
								return
							}
						}
					})
					if kind == 3 {
						c.Feature("real-clientHandler-dial-refused")
					} else if kind == 6 {
						c.Feature("real-clientHandler-bad-bridge-args")
					} else if kind == 7 {
						c.Feature("real-clientHandler-tor-hangs-up-before-reply")
					} else {
						c.Feature("real-clientHandler-relayed")
					}
					clientHandler(cf, l.B, nil)
					checkClosed(l.B, "clientHandler")
				}
			})
			continue
		}
		c.S.Go(fmt.Sprintf("h%d/handler", i), func() {
			c.S.Sleep(time.Duration(startDelay) * time.Millisecond)
			m.onHandlerStart()
			active++
			c.S.Sleep(time.Duration(work) * time.Millisecond)
			active--
			m.onHandlerFinish()
		})
	}
	sigAt := []int{0, 0, 5, 50, 500, 5000}[t.Draw("sigat", 6)]
	c.S.Go("os/signal", func() {
		c.S.Sleep(time.Duration(sigAt) * time.Millisecond)
		m.sigChan <- syscall.SIGINT
		sigSent++
		if sendTERM {
			c.S.Sleep(time.Duration([]int{0, 1, 50}[t.Draw("termat", 3)]) * time.Millisecond)
			select {
			case m.sigChan <- syscall.SIGTERM:
				sigSent++
			case <-time.After(time.Hour):
			}
		}
	})
	var waitTrueAt, waitTrueRet time.Duration
	activeAtReturn, inWorkAtReturn := -1, 0
	betweenMs := []int{0, 0, 1, 20, 100}[t.Draw("between-waits", 5)]
	c.Info["ms_between_waits"] = betweenMs
	c.S.Go("main/main", func() {
		mainState = "wait(false)"
		firstSig = m.wait(false)
		if firstSig == syscall.SIGTERM {
			mainState, mainDone = "exited-on-sigterm", true
			return
		}
		// main() closes its listeners between the two waits
		mainState = "closing-listeners"
		c.S.Sleep(time.Duration(betweenMs) * time.Millisecond)
		mainState = "wait(true)"
		waitTrueAt = c.S.Now()
		secondSig = m.wait(true)
		waitTrueRet = c.S.Now()
		activeAtReturn = active
		inWorkAtReturn = inWork
		mainState, mainDone = "exited", true
	})
	stop := c.S.Run(func() bool { return mainDone }, time.Hour)
	c.Reached, c.Nontrivial = true, nHandlers > 0 || true
	switch {
	case violatedEarly != "":
	case firstSig != nil && firstSig != syscall.SIGINT:
		c.Violate("C19/wait-false-returned-without-signal", "wait(false) returned %v although only SIGINT had been sent", firstSig)
	case !mainDone && mainState == "wait(false)":
		c.Violate("C19/signal-not-seen", "wait(false) did not return although SIGINT was offered (stop=%v)", stop)
	case !mainDone:
		// wait(true) is still blocked: legitimate only while a handler is active
		if active == 0 {
			c.Violate("C19/shutdown-never-completes", "graceful shutdown requested at %v with %d handlers in total; no handler is active any more (virtual time now %v) and wait(true) has still not returned", waitTrueAt, nHandlers, c.S.Now())
		} else {
			c.Violate("C19/harness", "handlers still active after an hour")
		}
	default:
		if secondSig == syscall.SIGTERM && sigSent < 2 && activeAtReturn > 0 && !realHandlers {
			c.Violate("C19/shutdown-with-active-handler", "wait(true) returned while %d handler(s) were still active (their start had been reported, their finish not) and no second signal had been sent", activeAtReturn)
		}
		if secondSig == syscall.SIGTERM && sigSent < 2 && inWorkAtReturn > 0 && realHandlers {
			c.Violate("C19/shutdown-with-active-handler", "wait(true) returned while %d real connection handler(s) were inside their transport call (past onHandlerStart, before onHandlerFinish) and no second signal had been sent", inWorkAtReturn)
		}
		if sigSent < 2 && activeAtReturn == 0 && nHandlers == 0 && waitTrueRet != waitTrueAt {
			c.Violate("C19/idle-shutdown-delayed", "no handler was ever active, yet wait(true) took %v", waitTrueRet-waitTrueAt)
		}
		c.Feature("shutdown-completed")
		if nHandlers == 0 {
			c.Feature("shutdown-with-no-handler-ever")
		}
	}
	// let blocked handler tasks finish: somebody has to receive their events
	drain := true
	c.S.Go("main/drain", func() {
		for drain {
			select {
			case <-m.handlerChan:
			case <-m.sigChan:
			case <-time.After(time.Hour):
				return
			}
		}
	})
	c.S.StopOnViolation = false
	c.S.Run(func() bool { return c.S.Live() <= 1 }, 3*time.Hour)
	drain = false
	if active == 0 && !c.S.Violated() {
		for _, oc := range outConns {
			if !oc.Closed() {
				c.Violate("C19/handler-left-connection-open", "every handler has returned; the connection %s that one of them had opened (to the bridge / to the ORPort) is still open", oc.Name())
				break
			}
		}
	}
	_ = io.EOF
	_ = sim.StopCond
}

// ---- stub factories for the real connection handlers ----------------------------

// trackOut records connections that handlers open themselves (set per run).
var trackOut = func(*simnet.Conn) {}

// ors maps a wrapped bridge-side connection to the factory that accepted it,
// so that the ORPort dial that follows knows which simulated ORPort to build.
var ors map[net.Conn]*stubServerFactory

type stubTransport struct{}

func (stubTransport) Name() string                                               { return "stub" }
func (stubTransport) ClientFactory(string) (base.ClientFactory, error)           { return nil, nil }
func (stubTransport) ServerFactory(string, *pt.Args) (base.ServerFactory, error) { return nil, nil }

// stubServerFactory fails every handshake after a delay (as obfs4 does with probers).
type stubServerFactory struct {
	c      *harness.Ctx
	delay  time.Duration
	inWork *int
	// ok: the handshake succeeds (the "transport" is the identity); the ORPort
	// dial that follows is served by the simulation (orFails: refused)
	ok      bool
	orFails bool
	orWork  time.Duration
	idx     int
}

func (f *stubServerFactory) Transport() base.Transport { return stubTransport{} }
func (f *stubServerFactory) Args() *pt.Args            { return &pt.Args{} }
func (f *stubServerFactory) WrapConn(conn net.Conn) (net.Conn, error) {
	if f.inWork != nil {
		*f.inWork++
	}
	f.c.S.Sleep(f.delay)
	if f.inWork != nil {
		*f.inWork--
	}
	if f.ok {
		ors[conn] = f
		return conn, nil
	}
	return nil, fmt.Errorf("stub: handshake failed")
}

// stubClientFactory "dials" a bridge inside the simulation: the far end
// answers the first bytes it gets and then hangs up.
type stubClientFactory struct {
	c    *harness.Ctx
	fail bool
	work time.Duration
	idx  int
	// argsFail: ParseArgs rejects the bridge arguments
	argsFail bool
	// inWork, if set, counts handlers that are inside Dial (which takes a
	// while: the handler is demonstrably between its start and finish reports)
	inWork *int
}

func (f *stubClientFactory) Transport() base.Transport { return stubTransport{} }
func (f *stubClientFactory) ParseArgs(*pt.Args) (any, error) {
	if f.argsFail {
		return nil, fmt.Errorf("stub: invalid bridge arguments")
	}
	return nil, nil
}
func (f *stubClientFactory) Dial(network, addr string, dialFn base.DialFunc, args any) (net.Conn, error) {
	if f.inWork != nil {
		// connecting takes a moment
		*f.inWork++
		f.c.S.Sleep(f.work / 2)
		*f.inWork--
	}
	if f.fail {
		return nil, &net.OpError{Op: "dial", Net: "tcp", Err: syscall.ECONNREFUSED}
	}
	l := f.c.Net.NewLink(fmt.Sprintf("h%d", f.idx), fmt.Sprintf("bridge%d", f.idx))
	trackOut(l.A)
	f.c.S.Go(fmt.Sprintf("bridge%d/far", f.idx), func() {
		buf := make([]byte, 64)
		if _, err := l.B.Read(buf); err != nil {
			return
		}
		l.B.Write([]byte("hello tor"))
		f.c.S.Sleep(f.work)
		l.B.Close()
	})
	return l.A, nil
}
