package main

import (
	"fmt"
	"io"
	"net"
	"os"
	"os/signal"
	"sync"
	"syscall"
	"time"

	pt "gitlab.torproject.org/tpo/anti-censorship/pluggable-transports/goptlib"

	"gitlab.com/yawning/obfs4.git/transports/base"

	"verifsim/harness"
	"verifsim/simnet"
	"verifsim/verifrt"
)

// ---- the whole of obfs4proxy's connection handling behind simulated listeners ----
//
// clientAcceptLoop and serverAcceptLoop run on listeners the simulation owns;
// they spawn the real handlers, which report to the real termination monitor.
// main's part (first wait, close the listeners, second wait) is played by a
// task.  What every accepted connection does is fixed when it is offered (the
// handlers run on goroutines of their own and must not draw from the tape).

type fakeListener struct {
	name     string
	ch       chan net.Conn
	closed   chan struct{}
	isClosed bool
}

func newFakeListener(name string) *fakeListener {
	return &fakeListener{name: name, ch: make(chan net.Conn), closed: make(chan struct{})}
}

type fakeAddr string

func (a fakeAddr) Network() string { return "tcp" }
func (a fakeAddr) String() string  { return string(a) }

func (l *fakeListener) Accept() (net.Conn, error) {
	select {
	case c := <-l.ch:
		return c, nil
	case <-l.closed:
		return nil, &net.OpError{Op: "accept", Net: "tcp", Err: net.ErrClosed}
	}
}

func (l *fakeListener) Close() error {
	if l.isClosed {
		return &net.OpError{Op: "close", Net: "tcp", Err: net.ErrClosed}
	}
	l.isClosed = true
	close(l.closed)
	return nil
}

func (l *fakeListener) Addr() net.Addr { return fakeAddr(l.name + ":1") }

// what one offered connection will do
type loopPlan struct {
	idx      int
	refuse   bool          // client side: the bridge refuses the dial; bridge side: the ORPort refuses
	hsFails  bool          // bridge side: the transport handshake fails
	work     time.Duration // how long the far side keeps the relay up
	badSocks bool          // client side: garbage instead of a SOCKS5 request
}

type loopWorld struct {
	c      *harness.Ctx
	byAddr map[string]*loopPlan
	mu     sync.Mutex // the handlers run on goroutines of their own
	inWork int
	opened []*simnet.Conn
}

func (w *loopWorld) work(d int) {
	w.mu.Lock()
	w.inWork += d
	w.mu.Unlock()
}

func (w *loopWorld) open(conn *simnet.Conn) {
	w.mu.Lock()
	w.opened = append(w.opened, conn)
	w.mu.Unlock()
}

func (w *loopWorld) plan(conn net.Conn) *loopPlan { return w.byAddr[conn.RemoteAddr().String()] }

type loopClientFactory struct{ w *loopWorld }

func (f *loopClientFactory) Transport() base.Transport       { return stubTransport{} }
func (f *loopClientFactory) ParseArgs(*pt.Args) (any, error) { return nil, nil }

// Dial is told which connection it is for by the SOCKS target's port.
func (f *loopClientFactory) Dial(network, addr string, dialFn base.DialFunc, args any) (net.Conn, error) {
	var p *loopPlan
	for _, q := range f.w.byAddr {
		if addr == fmt.Sprintf("10.0.%d.%d:443", q.idx/256, q.idx%256) {
			p = q
		}
	}
	if p == nil {
		return nil, fmt.Errorf("verif: dial for an unknown target %q", addr)
	}
	f.w.work(1)
	f.w.c.S.Sleep(p.work / 2)
	f.w.work(-1)
	if p.refuse {
		return nil, &net.OpError{Op: "dial", Net: "tcp", Err: syscall.ECONNREFUSED}
	}
	l := f.w.c.Net.NewLink(fmt.Sprintf("h%d", p.idx), fmt.Sprintf("bridge%d", p.idx))
	f.w.open(l.A)
	f.w.c.S.Go(fmt.Sprintf("bridge%d/far", p.idx), func() {
		buf := make([]byte, 64)
		if _, err := l.B.Read(buf); err != nil {
			return
		}
		l.B.Write([]byte("hello tor"))
		f.w.c.S.Sleep(p.work)
		l.B.Close()
	})
	return l.A, nil
}

type loopServerFactory struct{ w *loopWorld }

func (f *loopServerFactory) Transport() base.Transport { return stubTransport{} }
func (f *loopServerFactory) Args() *pt.Args            { return &pt.Args{} }
func (f *loopServerFactory) WrapConn(conn net.Conn) (net.Conn, error) {
	p := f.w.plan(conn)
	if p == nil {
		return nil, fmt.Errorf("verif: unknown connection")
	}
	f.w.work(1)
	f.w.c.S.Sleep(p.work / 2)
	f.w.work(-1)
	if p.hsFails {
		return nil, fmt.Errorf("stub: handshake failed")
	}
	return conn, nil
}

func runAcceptLoops(c *harness.Ctx) {
	t := c.T
	c.Info["part"] = "accept-loops"
	c.S.ArmSelect()
	// the handlers are spawned by the accept loops: their go statements are
	// tasks of the simulation in this scenario
	if k := []int{0, 1, 3}[t.Draw("termmon.yield-density", 3)]; k > 0 {
		salt := t.Draw("termmon.yield-salt", 1<<16)
		c.S.YieldOn = func(site int) bool {
			x := uint32(site)*2654435761 + uint32(salt)*40503
			x ^= x >> 15
			return int(x%uint32(k)) == 0
		}
	} else {
		c.S.YieldOn = func(int) bool { return false }
	}
	verifrt.Activate(c.S)
	c.AtEnd(verifrt.Deactivate)
	m := newTermMonitor()
	c.AtEnd(func() { signal.Stop(m.sigChan) })
	termMon = m
	c.AtEnd(func() { termMon = nil })
	w := &loopWorld{c: c, byAddr: map[string]*loopPlan{}}
	verifDialOr = func(info *pt.ServerInfo, addr, name string) (net.Conn, error) {
		p := w.byAddr[addr]
		if p == nil {
			return nil, fmt.Errorf("verif: ORPort dial for an unknown connection %q", addr)
		}
		w.work(1)
		c.S.Sleep(p.work / 2)
		w.work(-1)
		if p.refuse {
			return nil, &net.OpError{Op: "dial", Net: "tcp", Err: syscall.ECONNREFUSED}
		}
		l := c.Net.NewLink(fmt.Sprintf("h%d", p.idx), fmt.Sprintf("or%d", p.idx))
		w.open(l.A)
		c.S.Go(fmt.Sprintf("or%d/orport", p.idx), func() {
			buf := make([]byte, 64)
			if _, err := l.B.Read(buf); err != nil {
				return
			}
			l.B.Write([]byte("hello client"))
			c.S.Sleep(p.work)
			l.B.Close()
		})
		return l.A, nil
	}
	c.AtEnd(func() {
		verifDialOr = func(*pt.ServerInfo, string, string) (net.Conn, error) {
			return nil, fmt.Errorf("verif: no simulated ORPort in this scenario")
		}
	})
	lnC, lnS := newFakeListener("socks"), newFakeListener("bridge")
	loopsDone := 0
	c.S.Go("main/client-accept-loop", func() {
		clientAcceptLoop(&loopClientFactory{w}, lnC, nil)
		loopsDone++
	})
	c.S.Go("main/server-accept-loop", func() {
		serverAcceptLoop(&loopServerFactory{w}, lnS, nil)
		loopsDone++
	})
	n := t.Draw("nconns", 6)
	var accepted []*simnet.Conn
	var offeredLate int
	for i := 0; i < n; i++ {
		i := i
		p := &loopPlan{idx: i, work: time.Duration([]int{0, 2, 20, 200, 2000}[t.Draw("work", 5)]) * time.Millisecond}
		clientSide := t.Draw("side", 2) == 0
		switch t.Draw("fate", 4) {
		case 1:
			p.refuse = true
		case 2:
			if clientSide {
				p.badSocks = true
			} else {
				p.hsFails = true
			}
		}
		at := time.Duration([]int{0, 0, 1, 10, 60, 100, 600}[t.Draw("at", 7)]) * time.Millisecond
		far, near := fmt.Sprintf("far%d", i), fmt.Sprintf("h%d", i)
		l := c.Net.NewLink(far, near)
		w.byAddr[l.B.RemoteAddr().String()] = p
		c.S.Go(far+"/peer", func() {
			c.S.Sleep(at)
			ln := lnS
			if clientSide {
				ln = lnC
			}
			// offer the connection to the listener (a connection that arrives
			// after the listener was closed is never accepted)
			select {
			case ln.ch <- l.B:
				accepted = append(accepted, l.B)
			case <-ln.closed:
				offeredLate++
				l.A.Close()
				l.B.Close()
				return
			}
			buf := make([]byte, 64)
			if clientSide {
				if p.badSocks {
					l.A.Write([]byte{4, 1, 0, 80, 1, 2, 3, 4, 0})
				} else {
					l.A.Write([]byte{5, 1, 0})
					io.ReadFull(l.A, buf[:2])
					l.A.Write([]byte{5, 1, 0, 1, 10, 0, byte(i / 256), byte(i % 256), 1, 187})
					if _, err := io.ReadFull(l.A, buf[:10]); err != nil || buf[1] != 0 {
						l.A.Close()
						return
					}
					l.A.Write([]byte("hello bridge"))
				}
			} else {
				l.A.Write([]byte("hello relay"))
			}
			for {
				if _, err := l.A.Read(buf); err != nil {
					l.A.Close()
					return
				}
			}
		})
	}
	sigAt := time.Duration([]int{0, 5, 50, 500, 5000}[t.Draw("sigat", 5)]) * time.Millisecond
	between := time.Duration([]int{0, 0, 1, 20, 100}[t.Draw("between-waits", 5)]) * time.Millisecond
	sendTERM := t.Draw("sigterm", 4) == 3
	sigSent := 0
	c.S.Go("os/signal", func() {
		c.S.Sleep(sigAt)
		m.sigChan <- syscall.SIGINT
		sigSent++
		if sendTERM {
			c.S.Sleep(time.Duration([]int{0, 1, 50}[t.Draw("termat", 3)]) * time.Millisecond)
			select {
			case m.sigChan <- syscall.SIGTERM:
				sigSent++
			case <-time.After(time.Hour):
			}
		}
	})
	mainDone := false
	var second os.Signal
	inWorkAtReturn := 0
	c.S.Go("main/main", func() {
		if m.wait(false) == syscall.SIGTERM {
			mainDone = true
			return
		}
		// as main() does: stop accepting, then wait for the handlers
		c.S.Sleep(between)
		lnC.Close()
		lnS.Close()
		second = m.wait(true)
		inWorkAtReturn = w.inWork
		mainDone = true
	})
	c.S.Run(func() bool { return mainDone }, time.Hour)
	c.Reached, c.Nontrivial = true, n > 0
	c.Info["connections"], c.Info["signal_at"], c.Info["sigterm_follows"] = n, sigAt.String(), sendTERM
	open := func() int {
		k := 0
		for _, conn := range accepted {
			if !conn.Closed() {
				k++
			}
		}
		return k
	}
	switch {
	case !mainDone && open() == 0:
		c.Violate("C19/shutdown-never-completes", "accept loops: the listeners are closed, all %d accepted connections have been closed by their handlers, and wait(true) has still not returned an hour later", len(accepted))
	case !mainDone:
		c.Violate("C19/harness", "accept loops: %d handlers still hold their connection after an hour", open())
	case second == syscall.SIGTERM && sigSent < 2 && inWorkAtReturn > 0:
		c.Violate("C19/shutdown-with-active-handler", "accept loops: wait(true) returned while %d handler(s) were inside their transport or ORPort call and no second signal had been sent", inWorkAtReturn)
	default:
		c.Feature("accept-loops-shutdown-completed")
	}
	// let everything finish: somebody has to receive the remaining events
	drain := true
	c.S.Go("main/drain", func() {
		for drain {
			select {
			case <-m.handlerChan:
			case <-m.sigChan:
			case <-time.After(time.Hour):
				return
			}
		}
	})
	lnC.Close()
	lnS.Close()
	c.S.StopOnViolation = false
	c.S.Run(func() bool { return open() == 0 && loopsDone == 2 }, 3*time.Hour)
	drain = false
	if c.S.Violated() {
		return
	}
	if loopsDone != 2 {
		c.Violate("C19/accept-loop-still-running", "the listeners were closed; %d of the two accept loops have returned", loopsDone)
		return
	}
	if k := open(); k > 0 {
		c.Violate("C19/handler-left-connection-open", "accept loops: %d accepted connection(s) are still open three hours after the far ends finished", k)
		return
	}
	for _, oc := range w.opened {
		if !oc.Closed() {
			c.Violate("C19/handler-left-connection-open", "accept loops: every handler has let go of its accepted connection; the connection %s that one of them had opened is still open", oc.Name())
			return
		}
	}
	if len(accepted) > 0 {
		c.Feature("accept-loops-handled-connections")
	}
	if offeredLate > 0 {
		c.Feature("connection-arrived-after-listener-closed")
	}
}
