package wire

import (
	"encoding/base32"
	"fmt"
	"net"
	"os"
	"runtime"
	"syscall"
	"time"

	pt "gitlab.torproject.org/tpo/anti-censorship/pluggable-transports/goptlib"

	"gitlab.com/yawning/obfs4.git/common/socks5"
	"gitlab.com/yawning/obfs4.git/transports"
	"gitlab.com/yawning/obfs4.git/transports/base"

	"verifsim/harness"
	"verifsim/ref/obfsref"
	"verifsim/sim"
	"verifsim/simnet"
)

func init() { register(&harness.Prop{ID: "C10", Run: runC10, Variant: "B1+select-seam"}) }

// endpoint under test: how to run its handshake over a conn.
type c10Target struct {
	name    string
	role    string // "client" / "server"
	hsBound time.Duration
	open    func(conn net.Conn) (net.Conn, error)
}

func c10Targets(c *harness.Ctx) []c10Target {
	id := genObfs4Identity(c, c.T.Draw("iat", 3))
	rid := refIdentity(id)
	sf4, err := obfs4Server(id)
	if err != nil {
		panic(err)
	}
	cf4, _ := transports.Get("obfs4").ClientFactory("")
	cf3, _ := transports.Get("obfs3").ClientFactory("")
	sf3, _ := transports.Get("obfs3").ServerFactory("", &pt.Args{})
	cf2, _ := transports.Get("obfs2").ClientFactory("")
	sf2, _ := transports.Get("obfs2").ServerFactory("", &pt.Args{})
	return []c10Target{
		{"obfs4", "client", 61 * time.Second, func(conn net.Conn) (net.Conn, error) {
			pa, err := cf4.ParseArgs(clientArgsFor(rid, id.IAT, false))
			if err != nil {
				return nil, err
			}
			return cf4.Dial("tcp", "x:1", dialTo(conn), pa)
		}},
		{"obfs4", "server", 91 * time.Second, func(conn net.Conn) (net.Conn, error) { return sf4.WrapConn(conn) }},
		{"obfs3", "client", 31 * time.Second, func(conn net.Conn) (net.Conn, error) { return cf3.Dial("tcp", "x:1", dialTo(conn), nil) }},
		{"obfs3", "server", 31 * time.Second, func(conn net.Conn) (net.Conn, error) { return sf3.WrapConn(conn) }},
		{"obfs2", "client", 31 * time.Second, func(conn net.Conn) (net.Conn, error) { return cf2.Dial("tcp", "x:1", dialTo(conn), nil) }},
		{"obfs2", "server", 31 * time.Second, func(conn net.Conn) (net.Conn, error) { return sf2.WrapConn(conn) }},
	}
}

// guarded runs f as a task and records how it ended.
type c10Call struct {
	what     string
	done     bool
	err      error
	started  time.Duration
	finished time.Duration
}

func runC10(c *harness.Ctx) {
	t := c.T
	c.S.ArmSelect()
	setBias(false)
	steerPads(c, append([]int{obfsref.O2MaxPadding + 1, obfsref.O3HalfPadding + 1, obfsref.SSMaxPad + 1}, obfs4PadRanges...)...)
	kinds := []string{"garbage-handshake", "mutated-exchange", "link-fault", "idle-hour", "garbage-handshake", "mutated-exchange", "link-fault", "socks-garbage", "scramblesuit-chaos", "meek-chaos", "flood", "authenticated-malformed", "app-close"}
	kind := kinds[t.Draw("kind", len(kinds))]
	c.Info["kind"] = kind
	c.Feature("kind-" + kind)
	switch kind {
	case "garbage-handshake":
		c10Garbage(c)
	case "mutated-exchange":
		c10Pair(c, "mutate")
	case "link-fault":
		c10Pair(c, "fault")
	case "idle-hour":
		c10Pair(c, "idle")
	case "socks-garbage":
		c10Socks(c)
	case "scramblesuit-chaos":
		c10SS(c)
	case "meek-chaos":
		c10Meek(c)
	case "flood":
		c10Flood(c)
	case "authenticated-malformed":
		c10AuthMalformed(c)
	case "app-close":
		c10Pair(c, "app-close")
	}
}

var c10Lens = []int{0, 1, 15, 16, 23, 24, 31, 32, 63, 64, 191, 192, 193, 224, 255, 256, 1447, 1448, 4096, 8191, 8192, 8193, 8225, 8226, 8227, 20000}

// garbageSource writes random bytes in pieces and then ends.
func garbageSource(c *harness.Ctx, name string, conn *simnet.Conn, total int, end string) {
	t := c.T
	c.S.Go(name+"/garbage", func() {
		sent := 0
		for sent < total {
			n := total - sent
			if t.Draw(name+".piece", 3) == 2 {
				n = 1 + t.Draw(name+".piecen", n)
			}
			b := make([]byte, n)
			c.Rand.Fill("junk."+name, b)
			if _, err := conn.Write(b); err != nil {
				return
			}
			sent += n
			if p := []time.Duration{0, 0, time.Millisecond, time.Second, 29 * time.Second}[t.Draw(name+".pause", 5)]; p > 0 {
				c.S.Sleep(p)
			}
		}
		switch end {
		case "eof":
			conn.CloseWrite()
		case "close":
			conn.Close()
		case "rst":
			conn.Out().AddFault(simnet.Fault{Kind: simnet.FaultCutRST, Offset: int64(sent)})
		}
		// swallow whatever comes back
		buf := make([]byte, 4096)
		for {
			if _, err := conn.Read(buf); err != nil {
				return
			}
		}
	})
}

func c10Garbage(c *harness.Ctx) {
	t := c.T
	targets := c10Targets(c)
	tg := targets[t.Draw("target", len(targets))]
	link := c.Net.NewLink("peer", "tgt")
	configurePipe(c, link.AB, "p2t")
	link.AB.Lazy = false
	total := c10Lens[t.Draw("len", len(c10Lens))]
	end := []string{"silence", "eof", "close", "rst"}[t.Draw("end", 4)]
	c.Info["target"], c.Info["garbage_len"], c.Info["end"] = tg.name+"/"+tg.role, total, end
	garbageSource(c, "peer", link.A, total, end)
	var hs c10Call
	var rd c10Call
	c.S.Go("tgt/handshake", func() {
		hs.started = c.S.Now()
		conn, err := tg.open(link.B)
		hs.err, hs.done, hs.finished = err, true, c.S.Now()
		if err != nil {
			return
		}
		// garbage happened to be acceptable as a handshake (obfs3 takes any key)
		c.Feature("garbage-accepted-as-handshake")
		rd.started = c.S.Now()
		buf := make([]byte, 4096)
		for {
			_, err := conn.Read(buf)
			if err != nil {
				rd.err, rd.done, rd.finished = err, true, c.S.Now()
				conn.Close()
				return
			}
		}
	})
	c.S.Run(func() bool { return hs.done && (hs.err != nil || rd.done) }, 3*time.Minute)
	c.Reached, c.Nontrivial = true, total > 0
	if !hs.done {
		c.Violate("C10/handshake-call-never-returns", "%s %s fed %d bytes of garbage then %s: the handshake call has not returned after 3 virtual minutes (deadline bound %v)", tg.name, tg.role, total, end, tg.hsBound)
		return
	}
	if d := hs.finished - hs.started; d > tg.hsBound {
		c.Violate("C10/handshake-deadline-not-enforced", "%s %s: handshake call took %v on garbage input (bound %v)", tg.name, tg.role, d, tg.hsBound)
		return
	}
	if hs.err == nil && !rd.done && end != "silence" {
		c.Violate("C10/read-never-returns", "%s %s: peer ended with %s after %d bytes, Read is still blocked", tg.name, tg.role, end, total)
	}
	// a failed Dial must not leave the connection open (for servers closing the
	// raw connection is the caller's job, as obfs4proxy's handlers do)
	if hs.err != nil && tg.role == "client" && !link.B.Closed() {
		c.Violate("C10/failed-handshake-leaks-conn", "%s %s: handshake failed (%v) and the connection was left open", tg.name, tg.role, hs.err)
	}
}

// c10Pair: a real client and a real server of one transport exchange data
// while the path is mutated, cut, or left idle.
func c10Pair(c *harness.Ctx, mode string) {
	t := c.T
	targets := c10Targets(c)
	ti := t.Draw("transport", 3)
	cl, sv := targets[2*ti], targets[2*ti+1]
	link := c.Net.NewLink("c", "s")
	c.Info["c2s"] = configurePipe(c, link.AB, "c2s")
	c.Info["s2c"] = configurePipe(c, link.BA, "s2c")
	c.Info["transport"], c.Info["mode"] = cl.name, mode
	ending := false
	dir := t.Draw("dir", 2) // which direction is damaged
	pipe := []*simnet.Pipe{link.AB, link.BA}[dir]
	what := ""
	streamEnds := false
	closeSide, closeAfter := -1, time.Duration(0)
	var closeCalled, closeDone bool
	switch mode {
	case "mutate":
		at := int64(t.Draw("at", 12000))
		op := []string{"flip", "insert", "delete", "dup", "truncate-eof", "truncate-silence"}[t.Draw("op", 6)]
		what = fmt.Sprintf("%s at offset %d of the %s stream", op, at, []string{"client->server", "server->client"}[dir])
		c.Feature("mutate-" + op)
		bit := byte(1 << uint(t.Draw("bit", 8)))
		n := 1 + t.Draw("n", 64)
		done := false
		pipe.Filter = func(off int64, p []byte) []byte {
			if done || off+int64(len(p)) <= at {
				return p
			}
			done = true
			c.S.CountLocked("fault.tamper-"+op, 1)
			i := int(at - off)
			if i < 0 {
				i = 0
			}
			switch op {
			case "flip":
				p[i] ^= bit
			case "insert":
				junk := make([]byte, n)
				c.Rand.Fill("junk", junk)
				p = append(p[:i], append(junk, p[i:]...)...)
			case "delete":
				j := i + n
				if j > len(p) {
					j = len(p)
				}
				p = append(p[:i], p[j:]...)
			case "dup":
				j := i + n
				if j > len(p) {
					j = len(p)
				}
				p = append(p[:j], append(append([]byte(nil), p[i:j]...), p[j:]...)...)
			case "truncate-eof", "truncate-silence":
				p = p[:i]
			}
			return p
		}
		if op == "truncate-eof" {
			pipe.AddFault(simnet.Fault{Kind: simnet.FaultCutEOF, Offset: at})
			streamEnds = true
		}
		if op == "truncate-silence" {
			pipe.AddFault(simnet.Fault{Kind: simnet.FaultStall, Offset: at, Dur: 1000 * time.Hour})
		}
	case "fault":
		at := int64(t.Draw("at", 12000))
		fk := []string{simnet.FaultCutEOF, simnet.FaultCutRST, simnet.FaultWriteErr, simnet.FaultStall}[t.Draw("fault", 4)]
		what = fmt.Sprintf("%s at offset %d of the %s stream", fk, at, []string{"client->server", "server->client"}[dir])
		f := simnet.Fault{Kind: fk, Offset: at}
		if fk == simnet.FaultStall {
			f.Dur = []time.Duration{time.Second, 45 * time.Second, 1000 * time.Hour}[t.Draw("stall", 3)]
		} else {
			streamEnds = true
		}
		pipe.AddFault(f)
	case "idle":
		what = "one idle hour after the handshake"
	case "app-close":
		// the application of one side closes its connection while its own
		// reader and writer are in the middle of things
		closeSide = t.Draw("closeside", 2)
		closeAfter = time.Duration(t.Draw("closeafter", 3000)) * time.Millisecond
		what = fmt.Sprintf("the %s application calls Close %v after its handshake", []string{"client", "server"}[closeSide], closeAfter)
	}
	c.Info["what"] = what
	plan := func(l string) []writePlan {
		p := drawWrites(c, l, 4)
		return append(p, writePlan{Size: 1 + t.Draw(l+".last", 3000)})
	}
	type side struct {
		tg        c10Target
		under     *simnet.Conn
		hs        c10Call
		plan      []writePlan
		wrDone    bool
		rdDone    bool
		rdErr     error
		got       int64
		wrErr     error
		conn      net.Conn
		inRead    bool
		inWrite   bool
		dlCleared bool
	}
	sides := []*side{{tg: cl, under: link.A, plan: plan("cw")}, {tg: sv, under: link.B, plan: plan("sw")}}
	for i, sd := range sides {
		i, sd := i, sd
		nm := []string{"c", "s"}[i]
		c.S.Go(nm+"/main", func() {
			sd.hs.started = c.S.Now()
			conn, err := sd.tg.open(sd.under)
			sd.hs.err, sd.hs.done, sd.hs.finished = err, true, c.S.Now()
			if err != nil {
				return
			}
			sd.conn = conn
			sd.dlCleared = sd.under.ReadDeadline().IsZero()
			if mode == "idle" {
				c.S.Sleep(time.Hour + time.Duration(t.Draw("idlems", 100000))*time.Millisecond)
			}
			if i == closeSide {
				c.S.Go(nm+"/closer", func() {
					c.S.Sleep(closeAfter)
					closeCalled = true
					conn.Close()
					closeDone = true
					c.S.Count("fault.app-close-mid-stream", 1)
				})
			}
			c.S.Go(nm+"/reader", func() {
				buf := make([]byte, 4096)
				for {
					sd.inRead = true
					n, err := conn.Read(buf)
					sd.inRead = false
					sd.got += int64(n)
					if err != nil {
						sd.rdErr, sd.rdDone = err, true
						return
					}
				}
			})
			var off int64
			for _, w := range sd.plan {
				if w.PauseMs > 0 {
					c.S.Sleep(msec(w.PauseMs))
				}
				buf := make([]byte, w.Size)
				patFill(i, off, buf)
				sd.inWrite = true
				n, err := conn.Write(buf)
				sd.inWrite = false
				off += int64(n)
				if err != nil {
					// what the relay does on a failed write: drop the connection
					sd.wrErr = err
					conn.Close()
					break
				}
			}
			sd.wrDone = true
		})
	}
	total := func(i int) int64 { return planTotal(sides[i].plan) }
	stop := c.S.Run(func() bool {
		for i, sd := range sides {
			if !sd.hs.done {
				return false
			}
			if sd.hs.err != nil {
				continue
			}
			o := sides[1-i]
			if mode == "idle" && !(sd.wrDone && (o.hs.err != nil || sd.got == total(1-i))) {
				return false
			}
			if mode != "idle" && !sd.wrDone {
				return false
			}
		}
		return true
	}, 4*time.Hour)
	c.Reached = sides[0].hs.done && sides[1].hs.done
	c.Nontrivial = true
	defer func() { ending = true; _ = ending }()
	for i, sd := range sides {
		nm := sd.tg.name + " " + sd.tg.role
		if !sd.hs.done {
			c.Violate("C10/handshake-call-never-returns", "%s with %s: the handshake call has not returned after 4 virtual hours", nm, what)
			return
		}
		if d := sd.hs.finished - sd.hs.started; d > sd.tg.hsBound {
			c.Violate("C10/handshake-deadline-not-enforced", "%s with %s: handshake call took %v (bound %v)", nm, what, d, sd.tg.hsBound)
			return
		}
		// armed when the handshake starts: the first deadline call carries a
		// real time and precedes the first read of the connection
		if dl := sd.under.Deadlines; len(dl) == 0 || dl[0].T.IsZero() || dl[0].ReadsBefore != 0 {
			c.Violate("C10/handshake-deadline-not-armed-at-start", "%s: %d deadline calls on the underlying connection; the first one must arm a deadline before the first Read (got %+v)", nm, len(dl), dl)
			return
		}
		if sd.hs.err == nil && !sd.dlCleared {
			c.Violate("C10/handshake-deadline-left-armed", "%s: handshake succeeded but a deadline is still armed on the underlying connection (it would kill the established session later)", nm)
			return
		}
		if sd.hs.err != nil && mode == "idle" {
			c.Violate("C10/clean-handshake-failed", "%s on an undisturbed link: %v", nm, sd.hs.err)
			return
		}
		if sd.hs.err != nil && !sd.under.Closed() && sd.tg.role == "client" {
			c.Violate("C10/failed-handshake-leaks-conn", "%s with %s: handshake failed (%v) and the connection was left open", nm, what, sd.hs.err)
			return
		}
		if mode == "idle" {
			o := sides[1-i]
			if sd.wrErr != nil || sd.rdDone || sd.got != total(1-i) || !sd.wrDone {
				c.Violate("C10/established-connection-died-when-idle", "%s: after an idle hour the connection no longer works: write err %v, read err %v, read %d of %d bytes (stale handshake timer?)", nm, sd.wrErr, sd.rdErr, sd.got, total(1-i))
				return
			}
			_ = o
		}
		if !sd.wrDone && sd.hs.err == nil {
			c.Violate("C10/write-never-returns", "%s with %s: a Write has not returned after 4 virtual hours (stop=%v)", nm, what, stop)
			return
		}
	}
	if mode == "app-close" && sides[0].hs.err == nil && sides[1].hs.err == nil {
		c.S.Run(func() bool { return closeDone && sides[0].rdDone && sides[1].rdDone }, 2*time.Minute)
		switch {
		case !closeCalled:
			// the writers were done before the closer's time came
		case !closeDone:
			c.Violate("C10/close-never-returns", "%s %s: %s; Close has not returned two virtual minutes later", sides[closeSide].tg.name, sides[closeSide].tg.role, what)
		case !sides[closeSide].rdDone:
			c.Violate("C10/read-never-returns", "%s %s: %s; its own pending Read is still blocked two virtual minutes later", sides[closeSide].tg.name, sides[closeSide].tg.role, what)
		case !sides[1-closeSide].rdDone:
			c.Violate("C10/read-never-returns", "%s %s: the peer application closed its connection (%s); Read is still blocked two virtual minutes later", sides[1-closeSide].tg.name, sides[1-closeSide].tg.role, what)
		}
		return
	}
	// when the damaged direction's stream really ended (EOF/RST), the reader on that side must notice
	fired := c.S.Counters["fault."+simnet.FaultCutEOF]+c.S.Counters["fault."+simnet.FaultCutRST] > 0
	if streamEnds && fired {
		c.S.Run(func() bool { return false }, 2*time.Minute)
		rd := sides[1-dir] // reader of the damaged direction: dir 0 (c->s) is read by the server
		if rd.hs.err == nil && rd.hs.done && !rd.rdDone {
			c.Violate("C10/read-never-returns", "%s %s: the inbound stream ended (%s) and Read is still blocked two virtual minutes later", rd.tg.name, rd.tg.role, what)
		}
	}
}

func c10Socks(c *harness.Ctx) {
	t := c.T
	link := c.Net.NewLink("tor", "pt")
	configurePipe(c, link.AB, "c2s")
	link.AB.Lazy = false
	total := c10Lens[t.Draw("len", len(c10Lens))]
	if total > 2000 {
		total = 2000
	}
	end := []string{"silence", "eof", "close", "rst"}[t.Draw("end", 4)]
	// structured garbage: a valid-looking prefix followed by random bytes
	prefix := [][]byte{nil, {5}, {5, 1, 2}, {5, 2, 0, 2}, {5, 1, 2, 1, 3, 'k', '=', 'v', 1, 0}, {5, 1, 0, 5, 1, 0, 3, 255}}[t.Draw("prefix", 6)]
	c.Info["garbage_len"], c.Info["end"], c.Info["prefix"] = total, end, fmt.Sprintf("% x", prefix)
	c.S.Go("tor/garbage", func() {
		if len(prefix) > 0 {
			link.A.Write(prefix)
			c.S.Sleep(time.Duration(t.Draw("ppause", 3)) * time.Second)
		}
		b := make([]byte, total)
		c.Rand.Fill("junk", b)
		link.A.Write(b)
		switch end {
		case "eof":
			link.A.CloseWrite()
		case "close":
			link.A.Close()
		case "rst":
			link.AB.AddFault(simnet.Fault{Kind: simnet.FaultCutRST, Offset: link.AB.Written})
		}
		buf := make([]byte, 512)
		for {
			if _, err := link.A.Read(buf); err != nil {
				return
			}
		}
	})
	var hs c10Call
	c.S.Go("pt/handshake", func() {
		hs.started = c.S.Now()
		req, err := socks5.Handshake(link.B)
		hs.err, hs.done, hs.finished = err, true, c.S.Now()
		if err == nil {
			req.Reply(socks5.ReplyGeneralFailure)
		}
	})
	c.S.Run(func() bool { return hs.done }, time.Minute)
	c.Reached, c.Nontrivial = true, true
	if !hs.done {
		c.Violate("C10/handshake-call-never-returns", "socks5.Handshake fed %d bytes of garbage then %s has not returned after a virtual minute", total, end)
	} else if d := hs.finished - hs.started; d > 5*time.Second+time.Millisecond {
		c.Violate("C10/handshake-deadline-not-enforced", "socks5.Handshake took %v", d)
	}
}

func c10SS(c *harness.Ctx) {
	t := c.T
	secret := make([]byte, 20)
	c.Rand.Fill("cfg.secret", secret)
	server := &obfsref.SSServer{Secret: secret}
	// a state directory of its own for every run (tickets must not leak between runs)
	dir, derr := os.MkdirTemp(scratchDir(), "ss-")
	if derr != nil {
		panic(derr)
	}
	defer os.RemoveAll(dir)
	cf, err := transports.Get("scramblesuit").ClientFactory(dir)
	if err != nil {
		panic(err)
	}
	switch t.Draw("ssticket", 4) {
	case 2:
		c10SSTicket(c, cf, server, secret)
		return
	case 3:
		c10SSAuthMalformed(c, cf, server, secret)
		return
	}
	link := c.Net.NewLink("c", "r")
	configurePipe(c, link.AB, "c2s")
	configurePipe(c, link.BA, "s2c")
	at := int64(t.Draw("at", 3000))
	op := []string{"flip", "truncate-eof", "truncate-rst", "garbage-reply", "oversize-garbage", "none"}[t.Draw("op", 6)]
	c.Info["op"], c.Info["at"] = op, at
	c.Feature("ss-" + op)
	bit := byte(1 << uint(t.Draw("bit", 8)))
	switch op {
	case "flip":
		done := false
		link.BA.Filter = func(off int64, p []byte) []byte {
			if !done && off+int64(len(p)) > at && at >= off {
				done = true
				p[at-off] ^= bit
			}
			return p
		}
	case "truncate-eof":
		link.BA.AddFault(simnet.Fault{Kind: simnet.FaultCutEOF, Offset: at})
	case "truncate-rst":
		link.BA.AddFault(simnet.Fault{Kind: simnet.FaultCutRST, Offset: at})
	}
	c.S.Go("r/server", func() {
		var buf []byte
		tmp := make([]byte, 4096)
		priv := make([]byte, 192)
		c.Rand.Fill("ref.key", priv)
		key := obfsref.NewUDH(priv, false)
		pad := make([]byte, t.Draw("spad", obfsref.SSMaxPad+1))
		if op == "garbage-reply" || op == "oversize-garbage" {
			link.B.Read(tmp)
			n := 300 + t.Draw("glen", 1300)
			if op == "oversize-garbage" {
				n = 1532 + t.Draw("glen2", 100000)
			}
			junk := make([]byte, n)
			c.Rand.Fill("junk", junk)
			link.B.Write(junk)
			for {
				if _, err := link.B.Read(tmp); err != nil {
					return
				}
			}
		}
		for {
			n, err := link.B.Read(tmp)
			buf = append(buf, tmp[:n]...)
			if r, aerr := server.Accept(buf, nowHour(), key, pad); aerr == nil {
				link.B.Write(r.Reply)
				for i := 0; i < 3; i++ {
					data := make([]byte, 1+t.Draw("dlen", 1400))
					link.B.Write(r.Session.Packet(obfsref.SSFlagPayload, data, t.Draw("dpad", 20)))
				}
				for {
					if _, err := link.B.Read(tmp); err != nil {
						return
					}
				}
			}
			if err != nil {
				return
			}
		}
	})
	var hs, rd c10Call
	c.S.Go("c/main", func() {
		args := &pt.Args{}
		args.Add("password", base32.StdEncoding.EncodeToString(secret))
		pa, err := cf.ParseArgs(args)
		if err != nil {
			panic(err)
		}
		hs.started = c.S.Now()
		conn, err := cf.Dial("tcp", "10.0.0.2:443", dialTo(link.A), pa)
		hs.err, hs.done, hs.finished = err, true, c.S.Now()
		if err != nil {
			return
		}
		if !link.A.ReadDeadline().IsZero() {
			c.Violate("C10/handshake-deadline-left-armed", "scramblesuit client: handshake succeeded but a deadline is still armed")
		}
		conn.Write(make([]byte, 1+t.Draw("cw", 3000)))
		buf := make([]byte, 4096)
		for {
			if _, err := conn.Read(buf); err != nil {
				rd.err, rd.done = err, true
				return
			}
		}
	})
	c.S.Run(func() bool { return hs.done && (hs.err != nil || rd.done) }, 3*time.Minute)
	c.Reached, c.Nontrivial = true, true
	if !hs.done {
		c.Violate("C10/handshake-call-never-returns", "scramblesuit client with %s at %d: Dial has not returned after 3 virtual minutes", op, at)
	} else if d := hs.finished - hs.started; d > 61*time.Second {
		c.Violate("C10/handshake-deadline-not-enforced", "scramblesuit client with %s at %d: Dial took %v", op, at, d)
	} else if hs.err == nil && !rd.done && (op == "truncate-eof" || op == "truncate-rst") && c.S.Counters["fault."+simnet.FaultCutEOF]+c.S.Counters["fault."+simnet.FaultCutRST] > 0 {
		c.Violate("C10/read-never-returns", "scramblesuit client: stream cut (%s at %d) and Read is still blocked", op, at)
	}
}

// c10SSTicket: a first connection obtains a session ticket, a second one uses
// it; the handshake deadline must be disarmed on that path too, and the
// established connection must survive more than the handshake timeout.
func c10SSTicket(c *harness.Ctx, cf base.ClientFactory, server *obfsref.SSServer, secret []byte) {
	t := c.T
	c.Feature("ss-ticket-path")
	args := &pt.Args{}
	args.Add("password", base32.StdEncoding.EncodeToString(secret))
	for round := 0; round < 2; round++ {
		link := c.Net.NewLink(fmt.Sprintf("c%d", round), "r")
		configurePipe(c, link.AB, "c2s")
		configurePipe(c, link.BA, "s2c")
		var viaTicket, srvUp bool
		var sess *obfsref.SS
		c.S.Go(fmt.Sprintf("r/server%d", round), func() {
			var buf []byte
			tmp := make([]byte, 4096)
			priv := make([]byte, 192)
			c.Rand.Fill("ref.key", priv)
			key := obfsref.NewUDH(priv, false)
			for {
				n, err := link.B.Read(tmp)
				buf = append(buf, tmp[:n]...)
				if r, aerr := server.Accept(buf, nowHour(), key, make([]byte, t.Draw("spad", 200))); aerr == nil {
					viaTicket, sess = r.Ticket != nil, r.Session
					out := r.Reply
					tk := &obfsref.SSTicket{Key: make([]byte, 32), Ticket: make([]byte, 112)}
					c.Rand.Fill("ref.ticket", tk.Key)
					c.Rand.Fill("ref.ticket", tk.Ticket)
					server.Tickets = append(server.Tickets, tk)
					out = append(out, sess.Packet(obfsref.SSFlagNewTicket, append(append([]byte{}, tk.Key...), tk.Ticket...), 0)...)
					out = append(out, sess.Packet(obfsref.SSFlagPayload, []byte("hello"), 0)...)
					link.B.Write(out)
					srvUp = true
					// after the idle period: more data
					c.S.Sleep(3 * time.Minute)
					link.B.Write(sess.Packet(obfsref.SSFlagPayload, []byte("world"), 0))
					for {
						if _, err := link.B.Read(tmp); err != nil {
							return
						}
					}
				}
				if err != nil {
					return
				}
			}
		})
		var dialErr, rdErr, wrErr error
		var done bool
		got := 0
		c.S.Go(fmt.Sprintf("c%d/main", round), func() {
			defer func() { done = true }()
			pa, err := cf.ParseArgs(args)
			if err != nil {
				panic(err)
			}
			conn, err := cf.Dial("tcp", "10.0.0.2:443", dialTo(link.A), pa)
			if err != nil {
				dialErr = err
				return
			}
			if !link.A.ReadDeadline().IsZero() {
				c.Violate("C10/handshake-deadline-left-armed", "scramblesuit client (round %d, ticket handshake: %v): handshake succeeded but a deadline is still armed on the connection", round, round == 1)
				return
			}
			buf := make([]byte, 64)
			for got < 10 {
				n, err := conn.Read(buf)
				got += n
				if err != nil {
					rdErr = err
					return
				}
				if got == 5 {
					// idle for longer than the handshake timeout, then talk again
					c.S.Sleep(2 * time.Minute)
					if _, err := conn.Write([]byte("still here")); err != nil {
						wrErr = err
						return
					}
				}
			}
			conn.Close()
		})
		c.S.Run(func() bool { return done }, 10*time.Minute)
		c.Reached, c.Nontrivial = true, true
		if c.S.Violated() {
			return
		}
		if !done || dialErr != nil || rdErr != nil || wrErr != nil || got != 10 {
			c.Violate("C10/established-connection-died-when-idle", "scramblesuit client round %d (server saw a ticket handshake: %v, server up: %v): dial err %v, read err %v, write err %v, read %d of 10 bytes across a 2-3 minute idle period (stale handshake timer?)", round, viaTicket, srvUp, dialErr, rdErr, wrErr, got)
			return
		}
		if round == 1 && viaTicket {
			c.Feature("ss-ticket-handshake-survived-idle")
		}
		link.A.Close()
		link.B.Close()
	}
}

func c10Meek(c *harness.Ctx) {
	t := c.T
	c.S.MaxSteps = 1500000
	ending := false
	srv := &meekServer{c: c, sessions: map[string]int{}, ending: &ending, faulty: true}
	srv.downTotal = 1 << 40
	srv.respPlan = func() int { return []int{0, 1, 1000, 65536}[t.Draw("resp", 4)] }
	op := []string{"status-500", "status-mixed", "drop-conn", "garbage-response", "truncated-response", "slow-response", "stall-then-cut-with-full-queue", "huge-declared-length"}[t.Draw("op", 8)]
	c.Info["op"] = op
	c.Feature("meek-" + op)
	if op == "status-500" {
		srv.status = func() int { return 500 }
	}
	if op == "status-mixed" {
		srv.status = func() int { return []int{200, 200, 503, 404}[t.Draw("status", 4)] }
	}
	dials := 0
	dialFn := func(network, addr string) (net.Conn, error) {
		if ending {
			return nil, &net.OpError{Op: "dial", Net: "tcp", Err: syscall.ECONNREFUSED}
		}
		dials++
		name := fmt.Sprintf("h%d", dials)
		l := c.Net.NewLink("c", name)
		switch op {
		case "drop-conn":
			l.BA.AddFault(simnet.Fault{Kind: []string{simnet.FaultCutEOF, simnet.FaultCutRST}[t.Draw("dropk", 2)], Offset: int64(t.Draw("dropat", 400))})
		case "truncated-response":
			l.BA.AddFault(simnet.Fault{Kind: simnet.FaultCutEOF, Offset: int64(50 + t.Draw("truncat", 3000))})
		case "slow-response":
			l.BA.AddFault(simnet.Fault{Kind: simnet.FaultStall, Offset: int64(t.Draw("stallat", 200)), Dur: []time.Duration{time.Second, time.Minute, 1000 * time.Hour}[t.Draw("stalld", 3)]})
		}
		if op == "stall-then-cut-with-full-queue" {
			// the bridge swallows the request and never answers; later the
			// connection is cut while the application's writes have piled up
			cutAfter := time.Duration(1+t.Draw("cutafter", 20)) * time.Second
			how := t.Draw("cuthow", 2)
			c.S.Go(name+"/blackhole", func() {
				buf := make([]byte, 4096)
				c.S.Go(name+"/cutter", func() {
					c.S.Sleep(cutAfter)
					if how == 0 {
						l.B.Close()
					} else {
						l.BA.AddFault(simnet.Fault{Kind: simnet.FaultCutRST, Offset: l.BA.Written})
					}
				})
				for {
					if _, err := l.B.Read(buf); err != nil {
						return
					}
				}
			})
			return l.A, nil
		}
		if op == "huge-declared-length" {
			// a 200 response that announces a body of 64 MiB .. 1 GiB, sends a
			// little of it and goes quiet: what the client holds for this
			// connection must not depend on what the peer merely announces
			declared := []int{64 << 20, 256 << 20, 1 << 30}[t.Draw("declared", 3)]
			some := 1 + t.Draw("some", 3000)
			c.S.Go(name+"/announce", func() {
				buf := make([]byte, 4096)
				if _, err := l.B.Read(buf); err != nil {
					return
				}
				l.B.Write([]byte(fmt.Sprintf("HTTP/1.1 200 OK\r\nContent-Type: application/octet-stream\r\nContent-Length: %d\r\n\r\n", declared)))
				l.B.Write(make([]byte, some))
				for {
					if _, err := l.B.Read(buf); err != nil {
						return
					}
				}
			})
			return l.A, nil
		}
		if op == "garbage-response" {
			c.S.Go(name+"/garbage", func() {
				buf := make([]byte, 4096)
				l.B.Read(buf)
				junk := make([]byte, 1+t.Draw("glen", 5000))
				c.Rand.Fill("junk", junk)
				if t.Draw("ghttp", 2) == 1 {
					junk = append([]byte("HTTP/1.1 200 OK\r\nContent-Length: 999999999\r\n\r\n"), junk...)
				}
				l.B.Write(junk)
				l.B.Close()
			})
			return l.A, nil
		}
		c.S.Go(name+"/serve", func() { srv.serve(name, l.B) })
		return l.A, nil
	}
	cf, _ := transports.Get("meek_lite").ClientFactory("")
	args := &pt.Args{}
	args.Add("url", "http://meek.example/")
	pa, _ := cf.ParseArgs(args)
	var wrDone, rdDone, closeDone bool
	var ms runtime.MemStats
	heap := func() int64 {
		runtime.GC()
		runtime.ReadMemStats(&ms)
		return int64(ms.HeapAlloc)
	}
	c.S.Go("c/main", func() {
		var heapBefore int64
		if op == "huge-declared-length" {
			heapBefore = heap()
		}
		conn, err := cf.Dial("tcp", "meek.example:80", dialFn, pa)
		if err != nil {
			return
		}
		if op == "huge-declared-length" {
			c.S.Go("c/heap", func() {
				c.S.Sleep(time.Duration(2+t.Draw("measure-after", 20)) * time.Second)
				if growth := heap() - heapBefore; growth > 6<<20 {
					c.Violate("C10/unbounded-buffering", "meek_lite: the server announced a huge response body, sent a few bytes of it and went quiet; the client's heap grew by %d KiB (bound 6 MiB per connection)", growth>>10)
				}
				c.Feature("meek-announced-length-measured")
			})
		}
		c.S.Go("c/reader", func() {
			buf := make([]byte, 32768)
			for {
				_, err := conn.Read(buf)
				c.S.Sleep(0)
				if err != nil {
					rdDone = true
					return
				}
			}
		})
		nw, maxw := 1+t.Draw("nw", 4), 70000
		if op == "stall-then-cut-with-full-queue" {
			nw, maxw = 17+t.Draw("nwfull", 8), 10 // more writes than the queue has room for
		}
		for i, n := 0, nw; i < n; i++ {
			_, err := conn.Write(make([]byte, 1+t.Draw("wsz", maxw)))
			c.S.Sleep(0)
			if err != nil {
				break
			}
			if op != "stall-then-cut-with-full-queue" {
				c.S.Sleep(time.Duration(t.Draw("wpause", 2000)) * time.Millisecond)
			}
		}
		wrDone = true
		c.S.Sleep(time.Duration(t.Draw("closeafter", 400)) * time.Second)
		conn.Close()
		closeDone = true
	})
	c.S.Run(func() bool { return wrDone && closeDone && rdDone }, 3*time.Hour)
	c.Reached, c.Nontrivial = true, true
	if !wrDone {
		c.Violate("C10/write-never-returns", "meek_lite with %s: a Write is still blocked after 3 virtual hours", op)
	} else if !closeDone {
		c.Violate("C10/close-never-returns", "meek_lite with %s: Close did not return", op)
	} else if !rdDone && op != "slow-response" && op != "huge-declared-length" {
		// (a response that stalls forever is neither a failed nor a cut
		// connection: meek's Close does not interrupt the round trip in
		// progress, so a Read pending at Close stays pending with it - see
		// DESIGN.md 9.7, an observation outside the listed properties)
		c.Violate("C10/read-never-returns", "meek_lite with %s: Read still blocked 3 virtual hours after Close", op)
	}
	ending = true
}

// c10Obfs2PadLen: a well-formed obfs2 hello announcing an absurd padding
// length must not make the endpoint reserve memory for it or wait for it.
func c10Obfs2PadLen(c *harness.Ctx) {
	t := c.T
	targets := c10Targets(c)
	role := t.Draw("role", 2)
	tg := targets[4+role] // obfs2 client / server
	link := c.Net.NewLink("peer", "tgt")
	link.AB.Policy = simnet.ChunkBurst
	padField := []uint32{8193, 1 << 20, 1 << 26, 1 << 28}[t.Draw("padlen", 4)]
	c.Info["flood"] = fmt.Sprintf("obfs2 %s: valid hello announcing PADLEN %d", tg.role, padField)
	c.Feature("obfs2-oversize-padlen")
	var ms runtime.MemStats
	heap := func() uint64 {
		runtime.GC()
		runtime.ReadMemStats(&ms)
		return ms.HeapAlloc
	}
	var hs c10Call
	before := heap()
	c.S.Go("tgt/handshake", func() {
		hs.started = c.S.Now()
		conn, err := tg.open(link.B)
		hs.err, hs.done, hs.finished = err, true, c.S.Now()
		if err == nil {
			conn.Close()
		}
	})
	var peak uint64
	c.S.Go("peer/hello", func() {
		seed := make([]byte, 16)
		c.Rand.Fill("ref.seed", seed)
		link.A.Write(obfsref.O2Hello(role == 1, seed, make([]byte, 100), obfsref.O2Magic, padField))
		c.S.Sleep(time.Second)
		peak = heap()
		buf := make([]byte, 4096)
		for {
			if _, err := link.A.Read(buf); err != nil {
				return
			}
		}
	})
	c.S.Run(func() bool { return hs.done && peak != 0 }, 2*time.Minute)
	c.Reached, c.Nontrivial = true, true
	if growth := int64(peak) - int64(before); growth > 4<<20 {
		c.Violate("C10/unbounded-buffering", "obfs2 %s: a 124-byte hello announcing PADLEN %d made the heap grow by %d KiB", tg.role, padField, growth>>10)
		return
	}
	if !hs.done {
		c.Violate("C10/handshake-call-never-returns", "obfs2 %s with PADLEN %d: handshake still pending after 2 virtual minutes", tg.role, padField)
	} else if hs.err == nil {
		c.Violate("C10/oversize-padlen-accepted", "obfs2 %s accepted PADLEN %d", tg.role, padField)
	}
}

// c10Flood: bounded buffering.  The peer pushes megabytes at an endpoint
// whose application reads slowly or not at all; heap growth (after GC, while
// the connection is live) must stay far below the flood.
func c10Flood(c *harness.Ctx) {
	t := c.T
	targets := c10Targets(c)
	if t.Draw("obfs2padlen", 6) == 5 {
		c10Obfs2PadLen(c)
		return
	}
	which := t.Draw("which", 9)
	hsTarget := -1
	if which >= 4 {
		// handshake-phase flood at every transport and role
		hsTarget = which - 4 + 0
		if hsTarget > 5 {
			hsTarget = 5
		}
		which = 0
	}
	link := c.Net.NewLink("peer", "tgt")
	link.AB.Policy, link.BA.Policy = simnet.ChunkBurst, simnet.ChunkBurst
	const floodBytes = 12 << 20
	var ms runtime.MemStats
	heap := func() uint64 {
		runtime.GC()
		runtime.ReadMemStats(&ms)
		return ms.HeapAlloc
	}
	var before, peak uint64
	name := ""
	done := false
	switch which {
	case 0, 1:
		// handshake-phase garbage at a server (obfs4: silently discarded until the close time)
		tg := targets[[]int{1, 3}[which]]
		if hsTarget >= 0 {
			tg = targets[hsTarget]
		}
		name = tg.name + " " + tg.role + " handshake-phase garbage"
		c.S.Go("tgt/handshake", func() {
			conn, err := tg.open(link.B)
			if err == nil {
				buf := make([]byte, 100)
				conn.Read(buf) // one small read, then the application goes quiet
			}
		})
		c.S.Go("peer/flood", func() {
			before = heap()
			junk := make([]byte, 64<<10)
			c.Rand.Fill("junk", junk)
			for sent := 0; sent < floodBytes; sent += len(junk) {
				link.A.SetWriteDeadline(time.Now().Add(20 * time.Second))
				if _, err := link.A.Write(junk); err != nil {
					break
				}
				if sent%(2<<20) == 0 {
					if h := heap(); h > peak {
						peak = h
					}
				}
			}
			if h := heap(); h > peak {
				peak = h
			}
			done = true
		})
	default:
		// established obfs4 pair: the server application floods, the client application does not read
		cl, sv := targets[0], targets[1]
		name = "obfs4 client whose application does not read"
		if which == 3 {
			name = "obfs4 client whose application reads one byte per second"
		}
		c.S.Go("tgt/client", func() {
			conn, err := cl.open(link.A)
			if err != nil {
				return
			}
			if which == 3 {
				b := make([]byte, 1)
				for {
					if _, err := conn.Read(b); err != nil {
						return
					}
					c.S.Sleep(time.Second)
				}
			}
		})
		c.S.Go("peer/server", func() {
			conn, err := sv.open(link.B)
			if err != nil {
				return
			}
			before = heap()
			junk := make([]byte, 64<<10)
			for sent := 0; sent < floodBytes; sent += len(junk) {
				link.B.SetWriteDeadline(time.Now().Add(20 * time.Second))
				if _, err := conn.Write(junk); err != nil {
					break
				}
				if sent%(2<<20) == 0 {
					if h := heap(); h > peak {
						peak = h
					}
				}
			}
			if h := heap(); h > peak {
				peak = h
			}
			done = true
		})
	}
	c.Info["flood"] = name
	c.S.Run(func() bool { return done }, 2*time.Hour)
	c.Reached, c.Nontrivial = true, true
	if !done {
		c.Violate("C10/flood-harness", "flood did not finish")
		return
	}
	growth := int64(peak) - int64(before)
	c.Info["heap_growth_bytes"] = growth
	if growth > 4<<20 {
		c.Violate("C10/unbounded-buffering", "%s: heap grew by %d KiB while the peer pushed %d MiB (bound 4 MiB per connection)", name, growth>>10, floodBytes>>20)
	}
	c.Feature("flood-measured")
	_ = sim.StopCond
}
