package wire

import (
	"fmt"
	"io"
	"net"
	"time"

	"gitlab.com/yawning/obfs4.git/transports"

	"verifsim/harness"
	"verifsim/ref/obfs4ref"
	"verifsim/sim"
	"verifsim/simnet"
)

func init() { register(&harness.Prop{ID: "C05", Run: runC05}) }

func runC05(c *harness.Ctx) {
	defer maybeWoven(c)()
	t := c.T
	setBias(false)
	iat := t.Draw("iat", 3)
	id := genObfs4Identity(c, iat)
	rid := refIdentity(id)
	victimIsClient := t.Draw("role", 2) == 0
	link := c.Net.NewLink("c", "s")
	c.Info["c2s"] = configurePipe(c, link.AB, "c2s")
	c.Info["s2c"] = configurePipe(c, link.BA, "s2c")
	ending := false

	var victim net.Conn
	var ref *refEnd
	var early int
	seedTamper := ""
	dialRejected := false
	if victimIsClient {
		c.Info["victim"] = "real client"
		cf, _ := transports.Get("obfs4").ClientFactory("")
		seed := make([]byte, 24)
		c.Rand.Fill("ref.seed", seed)
		// the very first frame, the PRNG seed frame that trails the handshake
		// response, can be the damaged one (alone, or followed by an intact copy)
		seedTamper = []string{"", "", "", "flip", "flip-then-intact-copy"}[t.Draw("seedtamper", 5)]
		var mutate func([]byte) []byte
		if seedTamper != "" {
			at, bit := 2+t.Draw("seedbyte", 43), uint(t.Draw("seedbit", 8))
			mutate = func(f []byte) []byte {
				bad := append([]byte(nil), f...)
				bad[at] ^= 1 << bit
				c.S.Count("fault.tamper-seed-frame-"+seedTamper, 1)
				if seedTamper == "flip-then-intact-copy" {
					// the genuine 43-byte box follows the damaged frame
					return append(bad, f[2:]...)
				}
				return bad
			}
		}
		c.S.Go("r/accept", func() {
			hs := refServerHandshake(c, link.B, rid, refServerOpts{PadLen: t.Draw("spad", 300), Seed: seed, SplitSeed: t.Draw("splitseed", 3) == 2, SeedFrameMutate: mutate})
			if hs.End == nil {
				c.Violate("C05/setup", "reference server handshake failed: %v %v", hs.ParseErr, hs.ReadErr)
				return
			}
			ref = hs.End
		})
		c.S.Go("c/dial", func() {
			pa, err := cf.ParseArgs(clientArgsFor(rid, iat, false))
			if err != nil {
				c.Violate("C05/setup", "ParseArgs: %v", err)
				return
			}
			conn, err := cf.Dial("tcp", "x:1", dialTo(link.A), pa)
			if err != nil {
				if seedTamper != "" {
					dialRejected = true // the damage was reported while the handshake call was still running
					return
				}
				c.Violate("C05/setup", "Dial: %v", err)
				return
			}
			victim = conn
		})
	} else {
		c.Info["victim"] = "real server"
		sf, err := obfs4Server(id)
		if err != nil {
			panic(err)
		}
		c.S.Go("s/accept", func() {
			conn, err := sf.WrapConn(link.B)
			if err != nil {
				c.Violate("C05/setup", "WrapConn: %v", err)
				return
			}
			victim = conn
		})
		c.S.Go("r/dial", func() {
			hs := refClientHandshake(c, link.A, rid, refClientOpts{PadLen: obfs4ref.ClientMinPad + t.Draw("cpad", 300)})
			if hs.End == nil {
				c.Violate("C05/setup", "reference client handshake failed: %v %v", hs.ParseErr, hs.ReadErr)
				return
			}
			ref = hs.End
			early = len(hs.Early)
		})
	}
	if c.S.Run(func() bool { return (victim != nil || dialRejected) && ref != nil }, 2*time.Minute); dialRejected {
		c.Reached, c.Nontrivial = true, true
		c.Feature("seed-frame-damage-rejected-by-dial")
		return
	}
	if victim == nil || ref == nil {
		if !c.S.Violated() {
			c.Violate("C05/setup", "handshake did not complete")
		}
		return
	}
	_ = early

	// ---- the reference produces k frames, then the attacker edits the stream
	k := 3 + t.Draw("nframes", 6)
	type fr struct {
		wire    []byte
		payload int
		pad     int
		ctr     uint64
	}
	var frames []fr
	var off int64
	sizes := []int{0, 1, 2, 100, 1426, 1427}
	mk := func(n, pad int) fr {
		buf := make([]byte, n)
		patFill(7, off, buf)
		off += int64(n)
		ctr := ref.sess.Enc.Ctr()
		return fr{wire: ref.sess.Frame(obfs4ref.PacketPayload, buf, pad), payload: n, pad: pad, ctr: ctr}
	}
	for i := 0; i < k; i++ {
		n := sizes[t.Draw("fsz", len(sizes))]
		if t.Draw("fszr", 4) == 3 {
			n = t.Draw("fszv", obfs4ref.MaxPacketPayload+1)
		}
		pad := 0
		if t.Draw("fpad", 3) == 2 {
			pad = t.Draw("fpadv", obfs4ref.MaxPacketPayload-n+1)
		}
		frames = append(frames, mk(n, pad))
	}
	// tail: valid traffic continues for more than two maximum frames
	for i := 0; i < 3; i++ {
		frames = append(frames, mk(obfs4ref.MaxPacketPayload, 0))
	}
	j := t.Draw("at", k) // damaged frame index (0-based) among the first k
	ops := []string{"flip-length", "flip-tag", "flip-body", "delete", "duplicate", "swap", "replay-earlier", "insert", "truncate-eof", "truncate-silence", "none", "swap-bodies", "dup-body", "reseal-under-zero-key-while-closing", "body-from-256-frames-earlier"}
	op := ops[t.Draw("op", len(ops))]
	if op == "replay-earlier" && j == 0 {
		op = "duplicate"
	}
	if op == "flip-body" && len(frames[j].wire) <= 18 {
		op = "flip-tag"
	}
	if op == "swap-bodies" || op == "dup-body" {
		// move only the sealed boxes and leave each 2-byte length prefix in its
		// slot: needs two neighbouring frames of equal length (the tail has them)
		j = k
	}
	if op == "body-from-256-frames-earlier" {
		// a long stream of full frames; one slot carries the sealed body that was
		// sent 256 frames earlier (its own 2-byte length stays): only a nonce that
		// repeats with the low byte of the frame counter lets that through
		for len(frames) < k+256+4 {
			frames = append(frames, mk(obfs4ref.MaxPacketPayload, 0))
		}
		j = k + 256 + t.Draw("far", 3)
		link.AB.Policy, link.BA.Policy = simnet.ChunkAll, simnet.ChunkAll
		link.AB.MaxRead, link.BA.MaxRead = 0, 0
		c.S.MaxSteps *= 4
	}
	if seedTamper != "" {
		// the seed frame was damaged and Dial did not object: nothing at all may
		// be delivered and Read has to report it
		op = "none-after-seed-frame-" + seedTamper
	}
	c.Info["op"], c.Info["at_frame"], c.Info["frames"] = op, j, k
	c.Feature("op-" + op)
	if op != "none" {
		c.S.Count("fault.tamper-"+op, 1)
	}
	intact := 0 // payload bytes of the frames that precede the damage
	for i := 0; i < j; i++ {
		intact += frames[i].payload
	}
	var stream []byte
	emit := func(i int) { stream = append(stream, frames[i].wire...) }
	cutEOF, silence := false, false
	holdAt := -1 // the attacker sends stream[holdAt:] only once everything before the damage is delivered
	damaged := true
	switch op {
	case "flip-length", "flip-tag", "flip-body":
		for i := 0; i < j; i++ {
			emit(i)
		}
		w := append([]byte(nil), frames[j].wire...)
		var at int
		switch op {
		case "flip-length":
			at = t.Draw("byte", 2)
		case "flip-tag":
			at = 2 + t.Draw("byte", 16)
		default:
			at = 18 + t.Draw("byte", len(w)-18)
		}
		w[at] ^= 1 << uint(t.Draw("bit", 8))
		stream = append(stream, w...)
		for i := j + 1; i < len(frames); i++ {
			emit(i)
		}
	case "delete":
		for i := range frames {
			if i != j {
				emit(i)
			}
		}
	case "duplicate":
		intact += frames[j].payload
		for i := range frames {
			emit(i)
			if i == j {
				emit(i)
			}
		}
	case "swap":
		for i := 0; i < len(frames); i++ {
			if i == j {
				emit(j + 1)
				emit(j)
				i++
				continue
			}
			emit(i)
		}
	case "swap-bodies", "dup-body":
		for i := 0; i < j; i++ {
			emit(i)
		}
		a, b := frames[j].wire, frames[j+1].wire
		stream = append(stream, a[:2]...)
		stream = append(stream, b[2:]...) // frame j's slot carries frame j+1's box
		stream = append(stream, b[:2]...)
		if op == "swap-bodies" {
			stream = append(stream, a[2:]...)
		} else {
			stream = append(stream, b[2:]...)
		}
		for i := j + 2; i < len(frames); i++ {
			emit(i)
		}
		for i := 0; i < 3; i++ {
			stream = append(stream, mk(obfs4ref.MaxPacketPayload, 0).wire...)
		}
	case "body-from-256-frames-earlier":
		for i := 0; i < j; i++ {
			emit(i)
		}
		stream = append(stream, frames[j].wire[:2]...)
		stream = append(stream, frames[j-256].wire[2:]...)
		for i := j + 1; i < len(frames); i++ {
			emit(i)
		}
	case "replay-earlier":
		e := t.Draw("earlier", j)
		for i := range frames {
			if i == j {
				emit(e)
			}
			emit(i)
		}
	case "insert":
		junk := make([]byte, 1+t.Draw("junk", 60))
		c.Rand.Fill("ref.junk", junk)
		for i := range frames {
			if i == j {
				stream = append(stream, junk...)
			}
			emit(i)
		}
	case "reseal-under-zero-key-while-closing":
		// The attacker cannot know the session's key.  It can count frames, it
		// can leave the genuine (masked) length in place, and it can seal a body
		// of its own under a key anybody knows - all zeroes, nonce prefix all
		// zeroes, the right counter - and send it at the instant the victim's
		// application closes the connection while its reader is still in Read.
		for i := 0; i < j; i++ {
			emit(i)
		}
		holdAt = len(stream)
		forged := make([]byte, frames[j].payload)
		for i := range forged {
			forged[i] = 0xA7
		}
		var zk [32]byte
		var zp [16]byte
		stream = append(stream, frames[j].wire[:2]...)
		stream = append(stream, obfs4ref.SealBox(&zk, &zp, frames[j].ctr, obfs4ref.MakePacket(obfs4ref.PacketPayload, forged, frames[j].pad))...)
		for i := j + 1; i < len(frames); i++ {
			emit(i)
		}
	case "truncate-eof", "truncate-silence":
		for i := 0; i < j; i++ {
			emit(i)
		}
		cut := t.Draw("cut", len(frames[j].wire))
		stream = append(stream, frames[j].wire[:cut]...)
		cutEOF, silence = op == "truncate-eof", op == "truncate-silence"
	case "none":
		damaged = false
		intact = int(off)
		for i := range frames {
			emit(i)
		}
	default:
		// damaged seed frame: everything that follows is intact traffic
		intact = 0
		for i := range frames {
			emit(i)
		}
	}

	var got int64
	var rdErr error
	var rdDone bool
	afterErr := 0
	reached := make(chan struct{}) // closed once everything before the damage is delivered
	reachedDone := false
	signal := func() {
		if !reachedDone && got >= int64(intact) {
			reachedDone = true
			close(reached)
		}
	}
	if holdAt >= 0 {
		signal()
		closeAfter := time.Duration(0)
		if t.Draw("close.lat", 2) == 1 {
			closeAfter = ref.conn.(*simnet.Conn).Out().Latency
		}
		c.S.Go(map[bool]string{true: "c", false: "s"}[victimIsClient]+"/closer", func() {
			<-reached
			c.S.Park("v", "closer")
			if closeAfter > 0 {
				c.S.Sleep(closeAfter)
			}
			victim.Close()
		})
	}
	c.S.Go(map[bool]string{true: "c", false: "s"}[victimIsClient]+"/reader", func() {
		buf := make([]byte, []int{32768, 1, 100, 1427, 4096}[t.Draw("rdbuf", 5)])
		for {
			n, err := victim.Read(buf)
			if ending {
				return
			}
			if n > 0 {
				if bad := patCheck(7, got, buf[:n]); bad >= 0 {
					c.Violate("C05/delivered-bytes-not-sent", "victim delivered %d bytes at offset %d; byte %d is not what the peer wrote (op %s at frame %d)", n, got, got+int64(bad), op, j)
					return
				}
				got += int64(n)
				if holdAt >= 0 {
					signal()
				}
				// (once the damage has been reported, what an application that
				// nevertheless reads on receives must still be a prefix of what the
				// peer wrote - checked above - but is no longer bounded by the damage)
				if got > int64(intact) && rdErr == nil {
					c.Violate("C05/delivered-past-damage", "victim delivered %d bytes although only %d precede the damaged frame (op %s at frame %d)", got, intact, op, j)
					return
				}
			}
			if err != nil {
				if rdErr == nil {
					rdErr, rdDone = err, true
				}
				// an application that keeps calling Read after the error must not
				// be handed the frames behind the damaged one either (these
				// further calls may fail again or block; both are fine)
				afterErr++
				if afterErr >= 8 {
					return
				}
			}
		}
	})
	c.S.Go("r/attacker", func() {
		// write in a few pieces so burst boundaries do not coincide with frames
		pos := 0
		for pos < len(stream) {
			n := len(stream) - pos
			if t.Draw("wsplit", 3) == 2 {
				n = 1 + t.Draw("wn", n)
			}
			if holdAt >= 0 && pos < holdAt && pos+n > holdAt {
				n = holdAt - pos
			}
			if holdAt >= 0 && pos == holdAt {
				<-reached
				c.S.Park("r", "attacker-go")
			}
			if _, err := ref.conn.Write(stream[pos : pos+n]); err != nil {
				return
			}
			pos += n
		}
		if cutEOF {
			ref.conn.(interface{ CloseWrite() error }).CloseWrite()
		}
	})
	stop := c.S.Run(func() bool { return rdDone || (!damaged && got == off) }, 5*time.Minute)
	if rdDone {
		c.S.Run(func() bool { return afterErr >= 8 }, 30*time.Second)
	}
	c.Reached = true
	c.Nontrivial = damaged
	switch {
	case c.S.Violated():
	case !damaged:
		if got != off || rdDone {
			c.Violate("C05/control-failed", "undamaged stream: delivered %d of %d, err=%v", got, off, rdErr)
		}
	case silence:
		if rdDone && rdErr == io.EOF {
			c.Violate("C05/spurious-eof", "truncation followed by silence produced EOF")
		}
		// blocking forever is fine; an error is fine too
	case stop == sim.StopTime || !rdDone:
		c.Violate("C05/damage-not-reported", "op %s at frame %d: the damaged stream and %d further bytes were delivered, yet Read reported no error for 5 virtual minutes (delivered %d of %d intact bytes)", op, j, 3*1448, got, intact)
	}
	if rdDone {
		c.Feature(fmt.Sprintf("err-%s", sim.Normalize(rdErr.Error())))
	}
	ending = true
}
