package wire

import (
	"fmt"
	"io"
	"net"
	"time"

	pt "gitlab.torproject.org/tpo/anti-censorship/pluggable-transports/goptlib"

	"gitlab.com/yawning/obfs4.git/transports"

	"verifsim/harness"
	"verifsim/ref/obfsref"
	"verifsim/sim"
)

func init() {
	register(&harness.Prop{ID: "C13", Run: runC13})
	register(&harness.Prop{ID: "C14", Run: runC14})
}

// rawRef drives a reference endpoint of a stream-cipher transport.
type rawRef struct {
	name     string
	conn     net.Conn
	dirOut   int
	dirIn    int
	plan     []writePlan
	enc      func(data []byte) []byte
	dec      func(wire []byte) ([]byte, error)
	expectIn int64
	gotIn    int64
	wrDone   bool
	ending   *bool
	prop     string
}

func (r *rawRef) start(c *harness.Ctx) {
	c.S.Go(r.name+"/writer", func() {
		var off int64
		for _, w := range r.plan {
			if w.PauseMs > 0 {
				c.S.Sleep(msec(w.PauseMs))
			}
			if w.Size == 0 {
				continue
			}
			buf := make([]byte, w.Size)
			patFill(r.dirOut, off, buf)
			off += int64(w.Size)
			if _, err := r.conn.Write(r.enc(buf)); err != nil {
				if !*r.ending {
					c.Violate(r.prop+"/ref-write-failed", "%s: %v", r.name, err)
				}
				return
			}
		}
		r.wrDone = true
	})
	c.S.Go(r.name+"/reader", func() {
		tmp := make([]byte, 16384)
		for {
			n, err := r.conn.Read(tmp)
			if *r.ending {
				return
			}
			if n > 0 {
				pt, derr := r.dec(tmp[:n])
				if derr != nil {
					c.Violate(r.prop+"/ref-cannot-decode", "%s: %v after %d plaintext bytes", r.name, derr, r.gotIn)
					return
				}
				if bad := patCheck(r.dirIn, r.gotIn, pt); bad >= 0 {
					c.Violate(r.prop+"/ref-wrong-bytes", "%s: reference decrypted %d bytes at offset %d; byte %d is not what the application wrote", r.name, len(pt), r.gotIn, r.gotIn+int64(bad))
					return
				}
				r.gotIn += int64(len(pt))
				if r.gotIn > r.expectIn {
					c.Violate(r.prop+"/ref-extra-bytes", "%s: reference decrypted %d bytes, application wrote %d", r.name, r.gotIn, r.expectIn)
					return
				}
			}
			if err != nil {
				if !*r.ending {
					c.Violate(r.prop+"/ref-read-error", "%s: %v", r.name, err)
				}
				return
			}
		}
	})
}

func (r *rawRef) complete() bool { return r.wrDone && r.gotIn == r.expectIn }

// plansNonEmpty makes sure at least the given side writes something.
func ensureData(p []writePlan) []writePlan {
	if planTotal(p) == 0 {
		return append(p, writePlan{Size: 33})
	}
	return p
}

// edgeKeyHook makes the next 192-byte entropy read of the given nodes return
// an extreme private key.
func edgeKeyHook(c *harness.Ctx, nodes map[string]int) {
	used := map[string]bool{}
	c.Rand.Next = func(node string, p []byte) bool {
		k, ok := nodes[node]
		if !ok || used[node] || len(p) != 192 || k == 0 {
			return false
		}
		used[node] = true
		switch k {
		case 1: // zero
			for i := range p {
				p[i] = 0
			}
		case 2: // one (odd): cleared to zero, sends p - 1
			for i := range p {
				p[i] = 0
			}
			p[191] = 1
		case 3: // all ones (odd)
			for i := range p {
				p[i] = 0xff
			}
		case 4: // all ones but even
			for i := range p {
				p[i] = 0xff
			}
			p[191] = 0xfe
		case 5: // two
			for i := range p {
				p[i] = 0
			}
			p[191] = 2
		}
		c.Feature(fmt.Sprintf("edge-private-key-%d", k))
		return true
	}
}

func runC13(c *harness.Ctx) {
	defer maybeWoven(c)()
	t := c.T
	mode := t.Draw("mode", 5)
	modes := []string{"real-real", "real-client/ref-server", "ref-client/real-server", "reject-no-magic", "padding-boundary"}
	steerPads(c, obfsref.O3HalfPadding+1)
	c.Info["mode"] = modes[mode]
	c.Feature("mode-" + modes[mode])
	link := c.Net.NewLink("c", "s")
	c.Info["c2s"] = configurePipe(c, link.AB, "c2s")
	c.Info["s2c"] = configurePipe(c, link.BA, "s2c")
	ending := false
	tr := transports.Get("obfs3")
	cf, _ := tr.ClientFactory("")
	sf, err := tr.ServerFactory("", &pt.Args{})
	if err != nil {
		panic(err)
	}
	edgeKeyHook(c, map[string]int{"c": t.Draw("ckey", 12) % 6, "s": t.Draw("skey", 12) % 6})

	realClient := func(side *streamSide, up *bool) {
		c.S.Go("c/dial", func() {
			conn, err := cf.Dial("tcp", "x:1", dialTo(link.A), nil)
			if err != nil {
				if !ending {
					c.Violate("C13/handshake-failed", "client Dial: %v", err)
				}
				return
			}
			*up = true
			side.start(c, conn, "C13")
		})
	}
	realServer := func(side *streamSide, up *bool) {
		c.S.Go("s/accept", func() {
			conn, err := sf.WrapConn(link.B)
			if err != nil {
				if !ending {
					c.Violate("C13/handshake-failed", "server WrapConn: %v", err)
				}
				return
			}
			*up = true
			side.start(c, conn, "C13")
		})
	}
	// the reference peer's handshake: key | padding, then read the peer's key
	refHandshake := func(conn net.Conn, initiator bool, pad1 int) *obfsref.O3 {
		priv := make([]byte, 192)
		c.Rand.Fill("ref.key", priv)
		switch t.Draw("rkey", 8) {
		case 5:
			for i := range priv {
				priv[i] = 0
			}
		case 6:
			for i := range priv {
				priv[i] = 0xff
			}
		}
		key := obfsref.NewUDH(priv, t.Draw("ralt", 2) == 1)
		pad := make([]byte, pad1)
		c.Rand.Fill("ref.pad", pad)
		if _, err := conn.Write(append(append([]byte{}, key.Wire...), pad...)); err != nil {
			return nil
		}
		peer, err := obfsref.ReadKey(conn)
		if err != nil {
			if !ending {
				c.Violate("C13/ref-handshake", "reference could not read the peer's 192-byte key: %v", err)
			}
			return nil
		}
		return obfsref.NewO3(initiator, key, peer)
	}
	rdbuf := func(l string) int { return []int{32768, 1, 7, 1427, 4096}[t.Draw(l, 5)] }

	switch mode {
	case 0:
		cs := &streamSide{name: "c", dirOut: 0, dirIn: 1, plan: drawWrites(c, "cw", 5), rdBuf: rdbuf("c.rdbuf"), ending: &ending}
		ss := &streamSide{name: "s", dirOut: 1, dirIn: 0, plan: drawWrites(c, "sw", 5), rdBuf: rdbuf("s.rdbuf"), ending: &ending}
		maybeHuge(c, link, cs, ss)
		cs.expectIn, ss.expectIn = planTotal(ss.plan), planTotal(cs.plan)
		drawHangUp(c, cs, ss, true)
		var cUp, sUp bool
		realClient(cs, &cUp)
		realServer(ss, &sUp)
		comp, compReport := companionPair(c, "C13", cf, sf, &ending)
		stop := c.S.Run(func() bool { return cUp && sUp && cs.complete() && ss.complete() && comp() }, 10*time.Minute)
		c.Reached = cUp && sUp
		c.Nontrivial = cs.expectIn+ss.expectIn > 0
		if cs.complete() && ss.complete() {
			compReport()
		}
		if stop == sim.StopTime && !c.S.Violated() {
			c.Violate("C13/stalled-bytes", "quiet for 10 virtual minutes and incomplete: client read %d of %d, server read %d of %d", cs.gotIn, cs.expectIn, ss.gotIn, ss.expectIn)
		}
	case 1, 2:
		realIsClient := mode == 1
		var real *streamSide
		ref := &rawRef{name: "r", ending: &ending, prop: "C13", plan: drawWrites(c, "rw", 5)}
		pad1 := edgeRange(c, "pad1", 0, obfsref.O3HalfPadding)
		pad2 := edgeRange(c, "pad2", 0, obfsref.O3HalfPadding)
		c.Info["ref_pad1"], c.Info["ref_pad2"] = pad1, pad2
		var realUp, refUp bool
		var o *obfsref.O3
		refConn := net.Conn(link.B)
		if realIsClient {
			real = &streamSide{name: "c", dirOut: 0, dirIn: 1, plan: drawWrites(c, "cw", 5), rdBuf: rdbuf("c.rdbuf"), ending: &ending}
			ref.dirOut, ref.dirIn = 1, 0
			realClient(real, &realUp)
		} else {
			real = &streamSide{name: "s", dirOut: 1, dirIn: 0, plan: drawWrites(c, "sw", 5), rdBuf: rdbuf("s.rdbuf"), ending: &ending}
			ref.dirOut, ref.dirIn = 0, 1
			refConn = link.A
			realServer(real, &realUp)
		}
		real.expectIn, ref.expectIn = planTotal(ref.plan), planTotal(real.plan)
		ref.conn = refConn
		c.S.Go("r/handshake", func() {
			o = refHandshake(refConn, !realIsClient, pad1)
			if o == nil {
				return
			}
			p2 := make([]byte, pad2)
			c.Rand.Fill("ref.pad2", p2)
			ref.enc = func(d []byte) []byte { return o.Send(d, p2) }
			ref.dec = func(w []byte) ([]byte, error) { return o.Recv(w) }
			refUp = true
			ref.start(c)
		})
		stop := c.S.Run(func() bool { return realUp && refUp && real.complete() && ref.complete() }, 10*time.Minute)
		c.Reached = realUp && refUp
		c.Nontrivial = real.expectIn+ref.expectIn > 0
		if stop == sim.StopTime {
			c.Violate("C13/interop-incomplete", "quiet for 10 virtual minutes and incomplete: real side read %d of %d, reference decrypted %d of %d (peer magic found: %v)", real.gotIn, real.expectIn, ref.gotIn, ref.expectIn, o != nil && o.GotMagic())
		}
		if o != nil && o.GotMagic() {
			if o.PeerPadding > obfsref.O3MaxPadding {
				c.Violate("C13/too-much-padding", "real side sent %d bytes of padding before its magic", o.PeerPadding)
			}
			c.Feature("real-magic-found")
		}
	case 3, 4:
		// reference peer misbehaves (3) or sits exactly on the padding boundary (4)
		realIsClient := t.Draw("vrole", 2) == 0
		refConn := net.Conn(link.B)
		if !realIsClient {
			refConn = link.A
		}
		var realConn net.Conn
		var realUp bool
		var got int
		var rdErr error
		var rdDone bool
		reader := func(conn net.Conn) {
			realConn = conn
			realUp = true
			buf := make([]byte, 4096)
			for {
				n, err := conn.Read(buf)
				got += n
				if mode == 4 && n > 0 {
					if bad := patCheck(5, int64(got-n), buf[:n]); bad >= 0 {
						c.Violate("C13/wrong-bytes", "bytes after a boundary-length padding are wrong at %d", got-n+bad)
					}
				}
				if err != nil {
					rdErr, rdDone = err, true
					return
				}
			}
		}
		if realIsClient {
			c.S.Go("c/dial", func() {
				conn, err := cf.Dial("tcp", "x:1", dialTo(link.A), nil)
				if err != nil {
					c.Violate("C13/handshake-failed", "Dial: %v", err)
					return
				}
				reader(conn)
			})
		} else {
			c.S.Go("s/accept", func() {
				conn, err := sf.WrapConn(link.B)
				if err != nil {
					c.Violate("C13/handshake-failed", "WrapConn: %v", err)
					return
				}
				reader(conn)
			})
		}
		total := obfsref.O3MaxPadding // exactly the limit: must be accepted
		if mode == 3 {
			total = []int{obfsref.O3MaxPadding + 1, obfsref.O3MaxPadding + 6, 9000, 20000}[t.Draw("over", 4)]
		} else if t.Draw("under", 2) == 1 {
			total = obfsref.O3MaxPadding - t.Draw("underby", 40)
		}
		withMagic := mode == 4 || t.Draw("magic", 2) == 1
		c.Info["padding_total"], c.Info["magic_sent"] = total, withMagic
		pad1 := t.Draw("pad1", obfsref.O3HalfPadding+1)
		if pad1 > total {
			pad1 = total
		}
		c.S.Go("r/peer", func() {
			o := refHandshake(refConn, !realIsClient, pad1)
			if o == nil {
				return
			}
			p2 := make([]byte, total-pad1)
			c.Rand.Fill("ref.pad2", p2)
			data := make([]byte, 100)
			patFill(5, 0, data)
			if withMagic {
				refConn.Write(o.Send(data, p2))
			} else {
				junk := make([]byte, obfsref.O3MagicLen+100)
				c.Rand.Fill("ref.junk", junk)
				refConn.Write(append(p2, junk...))
			}
		})
		c.S.Run(func() bool { return rdDone || (mode == 4 && got == 100) }, 5*time.Minute)
		c.Reached, c.Nontrivial = realUp, true
		if mode == 4 {
			if got != 100 || rdDone {
				c.Violate("C13/boundary-padding-rejected", "peer sent %d bytes of padding (limit %d) then its magic and 100 bytes: real side delivered %d, err=%v", total, obfsref.O3MaxPadding, got, rdErr)
			}
		} else {
			if got != 0 {
				c.Violate("C13/data-before-magic", "real side delivered %d bytes from a peer that sent %d bytes of padding (limit %d), magic sent: %v", got, total, obfsref.O3MaxPadding, withMagic)
			} else if !rdDone {
				c.Violate("C13/oversize-padding-not-rejected", "peer sent %d bytes without a valid magic position and Read neither failed nor returned for 5 virtual minutes", total+obfsref.O3MagicLen+100)
			} else if rdErr == io.EOF {
				c.Violate("C13/oversize-padding-eof", "oversize padding surfaced as plain EOF")
			} else {
				under := link.A
				if !realIsClient {
					under = link.B
				}
				if !under.Closed() {
					c.Violate("C13/not-closed-after-reject", "Read failed (%v) but the connection was left open", rdErr)
				}
			}
		}
		_ = realConn
	}
	ending = true
}

func runC14(c *harness.Ctx) {
	defer maybeWoven(c)()
	t := c.T
	mode := t.Draw("mode", 4)
	modes := []string{"real-real", "real-client/ref-server", "ref-client/real-server", "reject"}
	steerPads(c, obfsref.O2MaxPadding+1)
	c.Info["mode"] = modes[mode]
	c.Feature("mode-" + modes[mode])
	link := c.Net.NewLink("c", "s")
	c.Info["c2s"] = configurePipe(c, link.AB, "c2s")
	c.Info["s2c"] = configurePipe(c, link.BA, "s2c")
	ending := false
	tr := transports.Get("obfs2")
	cf, _ := tr.ClientFactory("")
	sf, err := tr.ServerFactory("", &pt.Args{})
	if err != nil {
		panic(err)
	}
	rdbuf := func(l string) int { return []int{32768, 1, 7, 1427, 4096}[t.Draw(l, 5)] }
	var dialErr, wrapErr error
	var dialDone, wrapDone bool
	realClient := func(side *streamSide, up *bool) {
		c.S.Go("c/dial", func() {
			conn, err := cf.Dial("tcp", "x:1", dialTo(link.A), nil)
			dialErr, dialDone = err, true
			if err != nil {
				return
			}
			*up = true
			if side != nil {
				side.start(c, conn, "C14")
			}
		})
	}
	realServer := func(side *streamSide, up *bool) {
		c.S.Go("s/accept", func() {
			conn, err := sf.WrapConn(link.B)
			wrapErr, wrapDone = err, true
			if err != nil {
				return
			}
			*up = true
			if side != nil {
				side.start(c, conn, "C14")
			}
		})
	}
	// reference handshake; returns the session or nil
	refHandshake := func(conn net.Conn, initiator bool, padLen int, magic uint32, padField uint32) *obfsref.O2 {
		seed := make([]byte, 16)
		c.Rand.Fill("ref.seed", seed)
		// the specification puts no restriction on the seed: also the ends of
		// its domain
		switch t.Draw("ref.seedkind", 8) {
		case 5:
			for i := range seed {
				seed[i] = 0
			}
			c.Feature("ref-seed-all-zero")
		case 6:
			for i := range seed {
				seed[i] = 0xff
			}
			c.Feature("ref-seed-all-ones")
		case 7:
			for i := range seed {
				seed[i] = 0
			}
			seed[15] = 1
			c.Feature("ref-seed-one")
		}
		pad := make([]byte, padLen)
		c.Rand.Fill("ref.pad", pad)
		if _, err := conn.Write(obfsref.O2Hello(initiator, seed, pad, magic, padField)); err != nil {
			return nil
		}
		hdr := make([]byte, 24)
		if _, err := io.ReadFull(conn, hdr); err != nil {
			return nil
		}
		pseed, plen, err := obfsref.O2ParseHello(!initiator, hdr)
		if err != nil {
			if !ending {
				c.Violate("C14/real-handshake-nonconforming", "reference cannot parse the real side's handshake: %v (padlen field %d)", err, plen)
			}
			return nil
		}
		if _, err := io.ReadFull(conn, make([]byte, plen)); err != nil {
			return nil
		}
		c.Feature(fmt.Sprintf("real-padlen-%s", padClass(int(plen), 0, obfsref.O2MaxPadding)))
		if initiator {
			return obfsref.NewO2(true, seed, pseed)
		}
		return obfsref.NewO2(false, pseed, seed)
	}
	switch mode {
	case 0:
		cs := &streamSide{name: "c", dirOut: 0, dirIn: 1, plan: drawWrites(c, "cw", 5), rdBuf: rdbuf("c.rdbuf"), ending: &ending}
		ss := &streamSide{name: "s", dirOut: 1, dirIn: 0, plan: drawWrites(c, "sw", 5), rdBuf: rdbuf("s.rdbuf"), ending: &ending}
		maybeHuge(c, link, cs, ss)
		cs.expectIn, ss.expectIn = planTotal(ss.plan), planTotal(cs.plan)
		drawHangUp(c, cs, ss, true)
		var cUp, sUp bool
		realClient(cs, &cUp)
		realServer(ss, &sUp)
		comp, compReport := companionPair(c, "C14", cf, sf, &ending)
		stop := c.S.Run(func() bool { return cUp && sUp && cs.complete() && ss.complete() && comp() }, 10*time.Minute)
		c.Reached = cUp && sUp
		c.Nontrivial = cs.expectIn+ss.expectIn > 0
		if cs.complete() && ss.complete() {
			compReport()
		}
		if stop == sim.StopTime && !c.S.Violated() {
			c.Violate("C14/stalled-bytes", "quiet for 10 virtual minutes and incomplete: handshakes client=%v(%v) server=%v(%v); client read %d of %d, server read %d of %d", cUp, dialErr, sUp, wrapErr, cs.gotIn, cs.expectIn, ss.gotIn, ss.expectIn)
		}
	case 1, 2:
		realIsClient := mode == 1
		var real *streamSide
		ref := &rawRef{name: "r", ending: &ending, prop: "C14", plan: drawWrites(c, "rw", 5)}
		padLen := edgeRange(c, "pad", 0, obfsref.O2MaxPadding)
		c.Info["ref_pad"] = padLen
		var realUp, refUp bool
		refConn := net.Conn(link.B)
		if realIsClient {
			real = &streamSide{name: "c", dirOut: 0, dirIn: 1, plan: drawWrites(c, "cw", 5), rdBuf: rdbuf("c.rdbuf"), ending: &ending}
			ref.dirOut, ref.dirIn = 1, 0
			realClient(real, &realUp)
		} else {
			real = &streamSide{name: "s", dirOut: 1, dirIn: 0, plan: drawWrites(c, "sw", 5), rdBuf: rdbuf("s.rdbuf"), ending: &ending}
			ref.dirOut, ref.dirIn = 0, 1
			refConn = link.A
			realServer(real, &realUp)
		}
		real.expectIn, ref.expectIn = planTotal(ref.plan), planTotal(real.plan)
		ref.conn = refConn
		c.S.Go("r/handshake", func() {
			o := refHandshake(refConn, !realIsClient, padLen, obfsref.O2Magic, uint32(padLen))
			if o == nil {
				return
			}
			ref.enc = o.Send
			ref.dec = func(w []byte) ([]byte, error) { return o.Recv(w), nil }
			refUp = true
			ref.start(c)
		})
		stop := c.S.Run(func() bool { return realUp && refUp && real.complete() && ref.complete() }, 10*time.Minute)
		c.Reached = realUp && refUp
		c.Nontrivial = real.expectIn+ref.expectIn > 0
		if stop == sim.StopTime {
			c.Violate("C14/interop-incomplete", "quiet for 10 virtual minutes and incomplete: real up=%v (dial err %v, wrap err %v) ref up=%v; real side read %d of %d, reference decrypted %d of %d", realUp, dialErr, wrapErr, refUp, real.gotIn, real.expectIn, ref.gotIn, ref.expectIn)
		}
	case 3:
		realIsClient := t.Draw("vrole", 2) == 0
		refConn := net.Conn(link.B)
		var up bool
		if realIsClient {
			realClient(nil, &up)
		} else {
			refConn = link.A
			realServer(nil, &up)
		}
		magic := uint32(obfsref.O2Magic)
		padField := uint32(0)
		what := ""
		switch t.Draw("bad", 3) {
		case 0:
			magic ^= 1 << uint(t.Draw("mbit", 32))
			what = "corrupted magic"
		case 1:
			padField = []uint32{8193, 8200, 65536, 1 << 31, 0xffffffff}[t.Draw("plen", 5)]
			what = fmt.Sprintf("PADLEN %d", padField)
		default:
			padField = 8192
			what = "PADLEN 8192 (accept)"
		}
		// an oversize PADLEN is either followed by as much padding as it
		// announces (must still be refused) or by a little and then silence
		// (must be refused at once, not only when the handshake deadline expires)
		deliverAll := padField > 8192 && padField <= 70000 && t.Draw("deliverall", 2) == 1
		c.Info["bad"], c.Info["announced_padding_delivered"] = what, deliverAll
		t0 := c.S.Now()
		c.S.Go("r/peer", func() {
			sent := 300
			if padField == 8192 || deliverAll {
				sent = int(padField)
			}
			refHandshake(refConn, !realIsClient, sent, magic, padField)
			// keep the link open; the real side must decide by itself
			c.S.Sleep(2 * time.Minute)
		})
		c.S.Run(func() bool { return dialDone || wrapDone }, 90*time.Second)
		took := c.S.Now() - t0
		c.Reached, c.Nontrivial = true, true
		done, err := dialDone, dialErr
		if !realIsClient {
			done, err = wrapDone, wrapErr
		}
		if padField == 8192 && magic == obfsref.O2Magic {
			if !done || err != nil {
				c.Violate("C14/max-padding-rejected", "peer announced the maximum padding of 8192 and sent it: handshake result done=%v err=%v", done, err)
			}
		} else if !done {
			c.Violate("C14/invalid-handshake-not-rejected", "%s: handshake call still pending after 90 virtual seconds", what)
		} else if err == nil {
			c.Violate("C14/invalid-handshake-accepted", "%s (announced padding delivered: %v): handshake completed", what, deliverAll)
		} else if took > 5*time.Second {
			c.Violate("C14/invalid-handshake-rejected-late", "%s: the header was invalid from its first 24 bytes, yet the handshake call only failed after %v (%v): it kept waiting for what the peer announced", what, took, err)
		}
	}
	ending = true
}
