package wire

import (
	"bufio"
	"fmt"
	"io"
	"net"
	"net/http"
	"syscall"
	"time"

	pt "gitlab.torproject.org/tpo/anti-censorship/pluggable-transports/goptlib"

	"gitlab.com/yawning/obfs4.git/transports"

	"verifsim/harness"
	"verifsim/sim"
	"verifsim/simnet"
)

func init() { register(&harness.Prop{ID: "C16", Run: runC16, Variant: "B1+select-seam"}) }

// meekServer is the reference HTTP/1.1 endpoint: it records what arrives and
// answers 200 with tape-sized slices of the downstream stream.
type meekServer struct {
	c          *harness.Ctx
	sessions   map[string]int
	upGot      int64 // upstream payload bytes received so far (in request order)
	downSent   int64 // downstream bytes handed out in completed responses
	downTotal  int64
	requests   int
	chunked    bool // answers may come without an announced length (chunked)
	idlePolls  int  // consecutive empty exchanges at one virtual instant
	idlePollAt time.Duration
	inFlight   int
	maxBody    int
	lastReqAt  time.Duration
	reqAfter   int // requests that arrived after closedAt was set
	closedAt   time.Duration
	closed     bool
	faulty     bool
	conns      int
	ending     *bool
	respPlan   func() int
	status     func() int
	// dropAtReq > 0: the connection dies right after the server has consumed
	// that request, before a single byte of the answer (the body is counted as
	// received: it was)
	dropAtReq int
	dropped   bool
	// cutBodyAtReq > 0: the answer to that request is cut inside its body (the
	// header announces n bytes, fewer arrive, the connection ends); for the
	// server the whole body has gone out
	cutBodyAtReq int
	// failAtReq > 0: the first request from that one on that carries data is
	// answered 503 once (a fault in front of the bridge: the body is not taken);
	// the client retries and only what is answered 200 counts as received
	failAtReq  int
	failedOnce bool
}

func (m *meekServer) serve(name string, conn *simnet.Conn) {
	c := m.c
	br := bufio.NewReader(conn)
	for {
		req, err := http.ReadRequest(br)
		if err != nil {
			return
		}
		body, err := io.ReadAll(req.Body)
		if err != nil {
			return
		}
		m.requests++
		m.lastReqAt = c.S.Now()
		if m.closed {
			m.reqAfter++
		}
		m.inFlight++
		if m.inFlight > 1 && !m.faulty {
			c.Violate("C16/concurrent-requests", "request %d arrived while another request of the connection was still being answered", m.requests)
			return
		}
		if req.Method != "POST" {
			c.Violate("C16/bad-method", "request %d uses method %s", m.requests, req.Method)
		}
		// the url argument names the bridge; with a front the connection goes to
		// the front and the Host header is all that tells it where the request
		// belongs - a request for any other host never reaches the bridge
		if req.Host != "meek.example" {
			c.Violate("C16/request-not-for-the-bridge", "request %d carries Host %q; the url argument names meek.example (a front routes on that header: these bytes would never reach the bridge)", m.requests, req.Host)
			return
		}
		sid := req.Header.Get("X-Session-Id")
		m.sessions[sid]++
		if len(m.sessions) > 1 {
			c.Violate("C16/session-id-changed", "request %d carries session id %q; ids seen so far: %d", m.requests, sid, len(m.sessions))
			return
		}
		if sid == "" {
			c.Violate("C16/no-session-id", "request %d carries no X-Session-Id", m.requests)
			return
		}
		if len(body) > 65536 {
			c.Violate("C16/oversize-body", "request %d has a body of %d bytes", m.requests, len(body))
			return
		}
		if len(body) > m.maxBody {
			m.maxBody = len(body)
		}
		if m.failAtReq > 0 && m.requests >= m.failAtReq && !m.failedOnce && len(body) > 0 {
			m.failedOnce = true
			c.S.Count("fault.http-503-on-a-request-with-data", 1)
			hdr := "HTTP/1.1 503 Service Unavailable\r\nContent-Length: 0\r\n\r\n"
			m.inFlight--
			if _, err := conn.Write([]byte(hdr)); err != nil {
				return
			}
			continue
		}
		if bad := patCheck(0, m.upGot, body); bad >= 0 && !m.faulty {
			c.Violate("C16/upstream-corrupted", "request %d (%d bytes): body byte %d is not byte %d of what the application wrote (loss, duplication or reordering)", m.requests, len(body), bad, m.upGot+int64(bad))
			return
		}
		m.upGot += int64(len(body))
		if m.dropAtReq > 0 && m.requests >= m.dropAtReq && !m.dropped && len(body) > 0 {
			m.dropped = true
			m.inFlight--
			c.S.Count("fault.connection-dies-after-request-consumed", 1)
			conn.Close()
			return
		}
		status := 200
		if m.status != nil {
			status = m.status()
		}
		n := 0
		if status == 200 {
			n = m.respPlan()
			if rem := m.downTotal - m.downSent; int64(n) > rem {
				n = int(rem)
			}
		}
		// an idle poll: nothing in the request, nothing in the answer.  A client
		// that follows one such exchange with the next without letting any time
		// pass, over and over, is a busy loop across the network
		if len(body) == 0 && n == 0 && status == 200 {
			if now := c.S.Now(); m.idlePolls > 0 && now == m.idlePollAt {
				m.idlePolls++
			} else {
				m.idlePolls, m.idlePollAt = 1, now
			}
			if m.idlePolls == 200 {
				c.Violate("spin/meek-polls-without-delay", "meek_lite: %d consecutive empty polls answered with empty bodies at the same virtual instant (%v): the client polls an idle server in a busy loop", m.idlePolls, m.idlePollAt)
				return
			}
		} else {
			m.idlePolls = 0
		}
		out := make([]byte, n)
		patFill(1, m.downSent, out)
		hdr := fmt.Sprintf("HTTP/1.1 %d X\r\nContent-Length: %d\r\nContent-Type: application/octet-stream\r\n\r\n", status, n)
		if m.cutBodyAtReq > 0 && m.requests >= m.cutBodyAtReq && !m.dropped && n >= 2 {
			m.dropped = true
			k := 1 + c.T.Draw("cutbody.at", n-1)
			c.S.Count("fault.connection-dies-inside-response-body", 1)
			conn.Write(append([]byte(hdr), out[:k]...))
			m.downSent += int64(n)
			m.inFlight--
			conn.Close()
			return
		}
		msg := append([]byte(hdr), out...)
		if m.chunked && status == 200 && n > 0 && c.T.Draw("resp.chunked", 3) == 2 {
			// the same body without an announced length (what a front that
			// re-frames answers, or a handler that flushes early, produces):
			// chunked transfer coding, in one to three chunks
			msg = []byte(fmt.Sprintf("HTTP/1.1 %d X\r\nTransfer-Encoding: chunked\r\nContent-Type: application/octet-stream\r\n\r\n", status))
			rest := out
			for pieces := 1 + c.T.Draw("resp.chunks", 3); len(rest) > 0; pieces-- {
				k := len(rest)
				if pieces > 1 && k > 1 {
					k = 1 + c.T.Draw("resp.chunklen", k-1)
				}
				msg = append(msg, fmt.Sprintf("%x\r\n", k)...)
				msg = append(msg, rest[:k]...)
				msg = append(msg, "\r\n"...)
				rest = rest[k:]
			}
			msg = append(msg, "0\r\n\r\n"...)
			c.S.Count("http-chunked-response", 1)
		}
		if _, err := conn.Write(msg); err != nil {
			m.inFlight--
			return
		}
		m.downSent += int64(n)
		m.inFlight--
	}
}

func runC16(c *harness.Ctx) {
	defer maybeWoven(c)()
	t := c.T
	c.S.ArmSelect()
	c.S.MaxSteps = 1500000
	ending := false
	srv := &meekServer{c: c, sessions: map[string]int{}, ending: &ending, chunked: true}
	front := t.Draw("front", 2) == 1
	// plans
	upSizes := []int{1, 2, 100, 1000, 4096, 65535, 65536, 65537, 100000, 196608}
	var upPlan []writePlan
	for i, n := 0, t.Draw("up.n", 6); i < n; i++ {
		k := t.Draw("up.k", 8)
		sz := upSizes[t.Draw("up.small", 5)]
		if k == 7 {
			sz = upSizes[t.Draw("up.any", len(upSizes))]
		}
		upPlan = append(upPlan, writePlan{Size: sz, PauseMs: []int{0, 0, 1, 50, 150, 1000, 7000, 40000}[t.Draw("up.pause", 8)]})
	}
	upTotal := planTotal(upPlan)
	srv.downTotal = int64([]int{0, 1, 1000, 65536, 65537, 150000}[t.Draw("down.total", 6)])
	respKind := t.Draw("down.kind", 4)
	srv.respPlan = func() int {
		switch respKind {
		case 0:
			return 65536
		case 1:
			return []int{0, 0, 1, 100, 65536}[t.Draw("resp.mix", 5)]
		case 2:
			return 1 + t.Draw("resp.small", 2000)
		}
		return []int{0, 65535, 65536, 30000}[t.Draw("resp.big", 4)]
	}
	closeAt := -1
	if t.Draw("close", 2) == 1 {
		closeAt = t.Draw("close.at", 4000) // ms
	}
	if closeAt < 0 {
		switch t.Draw("drop", 6) {
		case 3:
			srv.dropAtReq = 1 + t.Draw("drop.at", 6)
		case 4, 5:
			srv.cutBodyAtReq = 1 + t.Draw("cutbody.req", 6)
		case 2:
			srv.failAtReq = 1 + t.Draw("fail.req", 4)
		}
	}
	c.Info["drop_after_request"], c.Info["cut_body_of_answer"], c.Info["answer_503_once_from_request"] = srv.dropAtReq, srv.cutBodyAtReq, srv.failAtReq
	c.Info["up_writes"], c.Info["down_total"], c.Info["resp_kind"], c.Info["close_at_ms"], c.Info["front"] = upPlan, srv.downTotal, respKind, closeAt, front
	policy := []int{simnet.ChunkBurst, simnet.ChunkAll, simnet.ChunkMSS, simnet.ChunkRand, simnet.ChunkBoundary}[t.Draw("chunk", 5)]
	lat := []time.Duration{0, 0, time.Millisecond, 30 * time.Millisecond}[t.Draw("lat", 4)]
	dials := 0
	dialFn := func(network, addr string) (net.Conn, error) {
		if ending {
			// the run is over: a transport that is still polling gets no new connection
			return nil, &net.OpError{Op: "dial", Net: "tcp", Err: syscall.ECONNREFUSED}
		}
		dials++
		if want := map[bool]string{false: "meek.example:80", true: "front.example:80"}[front]; addr != want {
			c.Violate("C16/dialed-wrong-host", "connection %d of the transport goes to %q, expected %q (front=%v)", dials, addr, want, front)
		}
		name := fmt.Sprintf("h%d", dials)
		l := c.Net.NewLink("c", name)
		for _, p := range []*simnet.Pipe{l.AB, l.BA} {
			p.Policy, p.Latency = policy, lat
		}
		srv.conns++
		c.S.Go(name+"/serve", func() { srv.serve(name, l.B) })
		return l.A, nil
	}
	cf, _ := transports.Get("meek_lite").ClientFactory("")
	args := &pt.Args{}
	args.Add("url", "http://meek.example/")
	if front {
		args.Add("front", "front.example")
	}
	pa, err := cf.ParseArgs(args)
	if err != nil {
		panic(err)
	}
	var conn net.Conn
	var wrOff int64
	var wrDone, rdDone, closed, closeCalled bool
	var rdGot int64
	var rdErr, wrErr error
	var closeReturnedAt time.Duration
	var readsAfterClose int
	c.S.Go("c/main", func() {
		var err error
		conn, err = cf.Dial("tcp", "meek.example:80", dialFn, pa)
		if err != nil {
			c.Violate("C16/dial-failed", "Dial: %v", err)
			return
		}
		c.S.Go("c/reader", func() {
			buf := make([]byte, []int{32768, 1, 1000, 70000}[t.Draw("rdbuf", 4)])
			for {
				n, err := conn.Read(buf)
				// the worker that handed this chunk over keeps running: order what
				// the application does next through the scheduler
				c.S.Sleep(0)
				if n > 0 {
					if bad := patCheck(1, rdGot, buf[:n]); bad >= 0 {
						c.Violate("C16/downstream-corrupted", "Read returned %d bytes at offset %d; byte %d is not what the server put in its response bodies", n, rdGot, rdGot+int64(bad))
						return
					}
					rdGot += int64(n)
					if rdGot > srv.downSent+65536 {
						c.Violate("C16/downstream-invented", "Read delivered %d bytes, the server only sent %d", rdGot, srv.downSent)
						return
					}
				}
				if closed {
					readsAfterClose += n
				}
				if err != nil {
					rdErr, rdDone = err, true
					return
				}
				if closed && readsAfterClose > 18*65536 {
					// at most the queued responses (16 x 64 KiB), the one in flight and the carry-over may still drain
					c.Violate("C16/read-after-close-keeps-succeeding", "%d bytes were still delivered after Close returned", readsAfterClose)
					return
				}
			}
		})
		if closeAt >= 0 {
			c.S.Go("c/closer", func() {
				c.S.Sleep(time.Duration(closeAt) * time.Millisecond)
				closeCalled = true
				if err := conn.Close(); err != nil {
					c.Violate("C16/close-failed", "first Close returned %v", err)
				}
				c.S.Sleep(0)
				closed, closeReturnedAt = true, c.S.Now()
				srv.closed, srv.closedAt = true, c.S.Now()
				// Write must fail from now on
				if n, err := conn.Write([]byte("x")); err == nil {
					c.Violate("C16/write-after-close", "Write after Close returned (%d, nil)", n)
				}
				if err := conn.Close(); err == nil {
					c.Feature("second-close-nil")
				}
			})
		}
		for _, w := range upPlan {
			if w.PauseMs > 0 {
				c.S.Sleep(msec(w.PauseMs))
			}
			buf := make([]byte, w.Size)
			patFill(0, wrOff, buf)
			n, err := conn.Write(buf)
			// the application reuses its buffer as soon as Write has returned
			// (io.Copy does): "Write must not retain p"
			for i := range buf {
				buf[i] = 0xEE
			}
			c.S.Sleep(0)
			if err != nil {
				wrErr = err
				// (a Write that overlaps Close may fail: only a failure before
				// Close was even called is one on an open connection)
				if !closeCalled && !srv.dropped {
					c.Violate("C16/write-failed", "Write(%d) = (%d, %v) on an open connection", w.Size, n, err)
				}
				break
			}
			if n != w.Size {
				c.Violate("C16/short-write", "Write(%d) = %d", w.Size, n)
				return
			}
			wrOff += int64(n)
		}
		wrDone = true
	})
	done := func() bool {
		if closeAt >= 0 {
			return closed && wrDone && rdDone
		}
		if srv.dropped {
			return wrDone && rdDone
		}
		return wrDone && srv.upGot == upTotal && rdGot == srv.downTotal
	}
	stop := c.S.Run(done, 20*time.Minute)
	c.Reached = conn != nil
	c.Nontrivial = upTotal > 0 || srv.downTotal > 0
	// the last Close is made from a task like every other call into the code
	// under test (the worker may be inside Close itself at this moment, and on
	// the woven build only tasks take part in the simulated locks)
	finalClose := func() {
		ending = true
		if conn == nil {
			return
		}
		done := false
		c.S.Go("c/final-close", func() {
			conn.Close()
			done = true
		})
		c.S.Run(func() bool { return done }, time.Minute)
	}
	if c.S.Violated() {
		finalClose()
		return
	}
	if srv.dropped {
		// the connection died under a request the server had already consumed:
		// the session may end there (every later call fails), but what the
		// server holds must stay a prefix of what was written - no body is
		// delivered twice (checked request by request above) - and nothing may
		// hang
		if stop == sim.StopTime {
			c.Violate("C16/hangs-after-connection-loss", "the connection died (after request %d was consumed / inside the answer to request %d); 20 virtual minutes later writer done=%v reader done=%v", srv.dropAtReq, srv.cutBodyAtReq, wrDone, rdDone)
		}
		if srv.upGot > wrOff+196608 {
			c.Violate("C16/upstream-invented", "server received %d bytes, application wrote %d", srv.upGot, wrOff)
		}
		c.Feature("connection-died-after-request-consumed")
	} else if closeAt < 0 {
		if stop == sim.StopTime {
			c.Violate("C16/incomplete", "20 quiet virtual minutes: server received %d of %d upstream bytes in %d requests; application read %d of %d downstream bytes (server handed out %d); writer done %v", srv.upGot, upTotal, srv.requests, rdGot, srv.downTotal, srv.downSent, wrDone)
		}
		if srv.maxBody == 65536 {
			c.Feature("full-64KiB-request-body")
		}
		if srv.requests > 0 {
			c.Feature("requests-seen")
		}
	} else {
		if stop == sim.StopTime {
			if !rdDone {
				c.Violate("C16/read-blocks-after-close", "Close returned at %v; 20 virtual minutes later a Read is still blocked (reads after close: %d)", closeReturnedAt, readsAfterClose)
			} else if !wrDone {
				c.Violate("C16/write-blocks-after-close", "Close returned at %v; 20 virtual minutes later a Write is still blocked", closeReturnedAt)
			}
		} else {
			// polling must stop.  The worker's select may legitimately pick a
			// ready write or poll timer over the close signal a few times (Go
			// chooses uniformly among ready cases), so a handful of requests
			// right after Close is not a violation; requests that keep coming are.
			c.S.Run(func() bool { return false }, time.Minute)
			before := srv.requests
			c.S.Run(func() bool { return false }, time.Hour)
			if srv.requests != before {
				c.Violate("C16/polling-after-close", "%d requests arrived later than a minute after Close had returned (last one at %v, Close at %v)", srv.requests-before, srv.lastReqAt, srv.closedAt)
			} else if srv.reqAfter > 64 {
				c.Violate("C16/polling-after-close", "%d requests arrived after Close had returned", srv.reqAfter)
			}
			if srv.reqAfter > 1 {
				c.Feature("several-requests-after-close")
			}
			if srv.upGot > wrOff+196608 {
				c.Violate("C16/upstream-invented", "server received %d bytes, application wrote %d", srv.upGot, wrOff)
			}
			c.Feature("close-checked")
		}
	}
	_ = wrErr
	_ = rdErr
	finalClose()
}
