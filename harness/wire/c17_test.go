package wire

import (
	"bytes"
	"fmt"
	"io"
	"net"
	"sort"
	"strconv"
	"time"

	"gitlab.com/yawning/obfs4.git/common/socks5"

	"verifsim/harness"
)

func init() { register(&harness.Prop{ID: "C17", Run: runC17}) }

// ---- strict reference encoder for pt-spec SOCKS5 arguments ----------------

type kv struct{ k, v string }

// encodeArgs renders key=value pairs separated by ';' with '\\', ';' (and '='
// inside keys) backslash-escaped, as the pluggable transport specification
// prescribes for the SOCKS5 username/password fields.
func encodeArgs(args []kv) string {
	var b bytes.Buffer
	for i, a := range args {
		if i > 0 {
			b.WriteByte(';')
		}
		for _, ch := range []byte(a.k) {
			if ch == '\\' || ch == ';' || ch == '=' {
				b.WriteByte('\\')
			}
			b.WriteByte(ch)
		}
		b.WriteByte('=')
		for _, ch := range []byte(a.v) {
			if ch == '\\' || ch == ';' {
				b.WriteByte('\\')
			}
			b.WriteByte(ch)
		}
	}
	return b.String()
}

func drawString(c *harness.Ctx, label string, minLen, maxLen int) string {
	t := c.T
	n := minLen + t.Draw(label+".n", maxLen-minLen+1)
	alphabet := []byte("ab=;\\ \x00\x01\x7f\x80\xff,:/\"'%z0")
	b := make([]byte, n)
	for i := range b {
		if t.Draw(label+".k", 3) == 0 {
			b[i] = alphabet[t.Draw(label+".c", len(alphabet))]
		} else {
			b[i] = byte('a' + t.Draw(label+".a", 26))
		}
	}
	return string(b)
}

type socksTarget struct {
	atyp   byte
	ip     net.IP
	domain string
	port   int
}

func (tg socksTarget) encode() []byte {
	out := []byte{5, 1, 0, tg.atyp}
	switch tg.atyp {
	case 1:
		out = append(out, tg.ip.To4()...)
	case 4:
		out = append(out, tg.ip.To16()...)
	case 3:
		out = append(out, byte(len(tg.domain)))
		out = append(out, tg.domain...)
	}
	return append(out, byte(tg.port>>8), byte(tg.port))
}

func (tg socksTarget) matches(target string) (bool, string) {
	switch tg.atyp {
	case 3:
		want := tg.domain + ":" + strconv.Itoa(tg.port)
		return target == want, want
	default:
		host, port, err := net.SplitHostPort(target)
		if err != nil {
			return false, tg.ip.String()
		}
		ip := net.ParseIP(host)
		return ip != nil && ip.Equal(tg.ip) && port == strconv.Itoa(tg.port), net.JoinHostPort(tg.ip.String(), strconv.Itoa(tg.port))
	}
}

// c17Mini is one plain exchange on a connection of its own - the front end
// serves many connections in one process, before and while the exchange under
// examination runs.  kind "ok": no authentication, CONNECT to a fixed domain,
// answered with success.  The other kinds are requests the front end answers
// with a failure reply itself (BIND, UDP ASSOCIATE, unknown address type,
// non-zero RSV).  Pauses between its steps come from the tape.
type c17Mini struct {
	name         string
	kind         string
	target       string
	hsDone, done bool
	hsErr        error
	gotTarget    string
	gotArgs      int
	saw          []byte
	out          []byte
}

func startC17Mini(c *harness.Ctx, name, kind string, paced bool) *c17Mini {
	t := c.T
	m := &c17Mini{name: name, kind: kind, target: "companion-" + name + ".example"}
	l := c.Net.NewLink(name+".tor", name+".pt")
	l.B.OnWrite = func(p []byte) { m.out = append(m.out, p...) }
	pause := func() {
		if paced {
			c.S.Sleep([]time.Duration{0, 0, time.Millisecond, 50 * time.Millisecond, 300 * time.Millisecond}[t.Draw(name+".pause", 5)])
		}
	}
	c.S.Go(name+".pt/handshake", func() {
		defer func() { m.hsDone = true }()
		req, err := socks5.Handshake(l.B)
		m.hsErr = err
		if err == nil {
			m.gotTarget, m.gotArgs = req.Target, len(req.Args)
			pause()
			req.Reply(socks5.ReplySucceeded)
		}
	})
	c.S.Go(name+".tor/client", func() {
		defer func() { m.done = true }()
		readN := func(n int) []byte {
			buf := make([]byte, n)
			l.A.SetReadDeadline(time.Now().Add(20 * time.Second))
			k, _ := io.ReadFull(l.A, buf)
			m.saw = append(m.saw, buf[:k]...)
			return buf[:k]
		}
		pause()
		if _, err := l.A.Write([]byte{5, 1, 0}); err != nil {
			return
		}
		if r := readN(2); len(r) < 2 || r[1] != 0 {
			return
		}
		pause()
		req := append([]byte{5, 1, 0, 3, byte(len(m.target))}, m.target...)
		req = append(req, 0x08, 0xae) // port 2222
		switch kind {
		case "bind":
			req[1] = 2
		case "udp":
			req[1] = 3
		case "unknown-atyp":
			req[3] = 5
		case "rsv-nonzero":
			req[2] = 7
		}
		if _, err := l.A.Write(req); err != nil {
			return
		}
		readN(10)
	})
	return m
}

// judge: the exchange's own bytes came back on its own connection.
func (m *c17Mini) judge(c *harness.Ctx, when string) bool {
	if !m.hsDone || !m.done {
		c.Violate("C17/other-connection-stuck", "%s connection %s (%s): Handshake returned=%v, its client finished=%v after a virtual minute; server wrote % x, client saw % x", when, m.name, m.kind, m.hsDone, m.done, m.out, m.saw)
		return false
	}
	if m.kind != "ok" {
		if m.hsErr == nil {
			c.Violate("C17/malformed-accepted", "%s connection %s: %s request accepted (target %q)", when, m.name, m.kind, m.gotTarget)
			return false
		}
		// method reply, then nothing or the front end's own failure reply
		if !(len(m.saw) == 2 || len(m.saw) == 12 && m.saw[2] == 5 && m.saw[3] != 0) {
			c.Violate("C17/improper-failure-reply", "%s connection %s (%s): client saw % x, expected the method reply and then nothing or a 10-byte failure reply", when, m.name, m.kind, m.saw)
			return false
		}
		return true
	}
	if m.hsErr != nil {
		c.Violate("C17/conforming-rejected", "%s connection %s: a plain conforming exchange failed: %v (server wrote % x)", when, m.name, m.hsErr, m.out)
		return false
	}
	if want := m.target + ":2222"; m.gotTarget != want || m.gotArgs != 0 {
		c.Violate("C17/target-altered", "%s connection %s asked for %q without arguments; the front end reports %q with %d argument keys", when, m.name, want, m.gotTarget, m.gotArgs)
		return false
	}
	if len(m.saw) != 12 || m.saw[2] != 5 || m.saw[3] != 0 {
		c.Violate("C17/bad-final-reply", "%s connection %s: client saw % x, expected the method reply and a 10-byte success reply on its own connection", when, m.name, m.saw)
		return false
	}
	return true
}

func runC17(c *harness.Ctx) {
	t := c.T
	link := c.Net.NewLink("tor", "pt")
	c.Info["c2s"] = configurePipe(c, link.AB, "c2s")
	link.AB.Lazy = false
	if link.AB.Latency > 10*time.Millisecond {
		link.AB.Latency = 10 * time.Millisecond
	}

	// ---- what tor wants to say
	var tg socksTarget
	tg.port = []int{0, 1, 80, 443, 9001, 65535}[t.Draw("port", 6)]
	if t.Draw("portr", 2) == 1 {
		tg.port = t.Draw("portv", 65536)
	}
	switch t.Draw("atyp", 3) {
	case 0:
		tg.atyp = 1
		ip := make([]byte, 4)
		c.Rand.Fill("tor.ip", ip)
		tg.ip = net.IP(ip)
	case 1:
		tg.atyp = 4
		ip := make([]byte, 16)
		c.Rand.Fill("tor.ip", ip)
		switch t.Draw("ip6k", 4) {
		case 1:
			copy(ip, net.ParseIP("::ffff:1.2.3.4").To16()) // IPv4-mapped
		case 2:
			for i := 2; i < 14; i++ {
				ip[i] = 0 // long zero run
			}
		}
		tg.ip = net.IP(ip)
	default:
		tg.atyp = 3
		tg.domain = drawString(c, "dom", 1, []int{1, 20, 254}[t.Draw("domlen", 3)])
		if t.Draw("dom255", 8) == 7 {
			tg.domain = string(bytes.Repeat([]byte("x"), 255))
		}
	}
	nargs := t.Draw("nargs", 5)
	var args []kv
	seen := map[string]bool{}
	for i := 0; i < nargs; i++ {
		k := drawString(c, "key", 1, 12)
		if t.Draw("dupkey", 6) == 5 && len(args) > 0 {
			k = args[0].k // repeated key
		}
		v := drawString(c, "val", 0, []int{0, 8, 60, 200}[t.Draw("vallen", 4)])
		args = append(args, kv{k, v})
		seen[k] = true
	}
	enc := encodeArgs(args)
	for len(enc) > 510 && len(args) > 0 {
		args = args[:len(args)-1]
		enc = encodeArgs(args)
	}
	// pad a value so that the encoding spills from username into password at a chosen point
	if len(args) > 0 && t.Draw("spill", 3) == 2 {
		want := 250 + t.Draw("spillat", 12)
		if len(enc) < want {
			args[len(args)-1].v += string(bytes.Repeat([]byte("p"), want-len(enc)))
			enc = encodeArgs(args)
		}
	}
	// The pt-spec encoding is inherently ambiguous when the part that spills
	// into the password is exactly one NUL byte (that is also the "no
	// password" convention); a client cannot express that, so do not ask.
	if len(enc) == 256 && enc[255] == 0 {
		args[len(args)-1].v += "q"
		enc = encodeArgs(args)
	}
	useAuth := len(args) > 0
	var uname, passwd []byte
	if useAuth {
		if len(enc) <= 255 {
			uname, passwd = []byte(enc), []byte{0}
			if t.Draw("splitshort", 4) == 3 && len(enc) >= 2 {
				cut := 1 + t.Draw("splitat", len(enc)-1)
				if !(cut == len(enc)-1 && enc[cut] == 0) {
					uname, passwd = []byte(enc[:cut]), []byte(enc[cut:])
				}
			}
		} else {
			uname, passwd = []byte(enc[:255]), []byte(enc[255:])
			c.Feature("args-spill-into-password")
		}
	}
	var methods []byte
	switch {
	case useAuth && t.Draw("meth", 3) == 0:
		methods = []byte{2}
	case useAuth:
		methods = []byte{0, 2}
		if t.Draw("methorder", 2) == 1 {
			methods = []byte{2, 1, 0}
		}
	default:
		methods = []byte{0}
		if t.Draw("methx", 3) == 2 {
			methods = []byte{1, 0}
		}
	}

	// ---- malformed variants
	malformed := ""
	variants := []string{"", "", "", "bad-version", "nmethods-0", "no-acceptable-method", "bad-auth-version", "ulen-0", "plen-0", "bad-escape", "empty-key", "key-without-value", "trailing-semicolon",
		"unknown-atyp", "zero-length-domain", "cmd-bind", "cmd-udp", "rsv-nonzero", "bad-request-version", "pipelined-trailing", "truncate", "silence"}
	if t.Draw("malformed", 2) == 1 {
		malformed = variants[3+t.Draw("variant", len(variants)-3)]
	}
	needsAuth := map[string]bool{"bad-auth-version": true, "ulen-0": true, "plen-0": true, "bad-escape": true, "empty-key": true, "key-without-value": true, "trailing-semicolon": true}
	if needsAuth[malformed] && !useAuth {
		useAuth, methods = true, []byte{2}
		uname, passwd = []byte("k=v"), []byte{0}
		args = []kv{{"k", "v"}}
	}
	c.Info["variant"], c.Info["atyp"], c.Info["nargs"], c.Info["enc_len"] = malformed, tg.atyp, len(args), len(enc)
	if malformed == "" {
		c.Feature("conforming")
	} else {
		c.Feature("malformed-" + malformed)
	}

	msg1 := append([]byte{5, byte(len(methods))}, methods...)
	msg2 := append(append(append([]byte{1, byte(len(uname))}, uname...), byte(len(passwd))), passwd...)
	msg3 := tg.encode()
	failStage := 0
	switch malformed {
	case "bad-version":
		msg1[0] = []byte{4, 0, 6, 'G'}[t.Draw("badver", 4)]
		failStage = 1
	case "nmethods-0":
		msg1 = []byte{5, 0}
		failStage = 1
	case "no-acceptable-method":
		msg1 = []byte{5, 2, 1, 3}
		failStage = 1
	case "bad-auth-version":
		msg2[0] = []byte{0, 2, 5}[t.Draw("badaver", 3)]
		failStage = 2
	case "ulen-0":
		msg2 = append([]byte{1, 0, byte(len(passwd))}, passwd...)
		failStage = 2
	case "plen-0":
		msg2 = append(append([]byte{1, byte(len(uname))}, uname...), 0)
		failStage = 2
	case "bad-escape", "empty-key", "key-without-value", "trailing-semicolon":
		bad := map[string]string{"bad-escape": []string{"k=v\\", "k=a\\bc", "k\\x=v"}[t.Draw("be", 3)], "empty-key": []string{"=v", "a=b;=c"}[t.Draw("ek", 2)],
			"key-without-value": []string{"k", "a=b;c"}[t.Draw("kw", 2)], "trailing-semicolon": "a=b;"}[malformed]
		msg2 = append(append([]byte{1, byte(len(bad))}, bad...), 1, 0)
		failStage = 2
	case "unknown-atyp":
		msg3[3] = []byte{0, 2, 5, 0xff}[t.Draw("batyp", 4)]
		failStage = 3
	case "zero-length-domain":
		msg3 = []byte{5, 1, 0, 3, 0, 0, 80}
		failStage = 3
	case "cmd-bind":
		msg3[1] = 2
		failStage = 3
	case "cmd-udp":
		msg3[1] = 3
		failStage = 3
	case "rsv-nonzero":
		msg3[2] = 1 + byte(t.Draw("rsv", 255))
		failStage = 3
	case "bad-request-version":
		msg3[0] = 4
		failStage = 3
	}
	stages := [][]byte{msg1}
	if useAuth {
		stages = append(stages, msg2)
	}
	stages = append(stages, msg3)
	stageNo := []int{1}
	if useAuth {
		stageNo = append(stageNo, 2)
	}
	stageNo = append(stageNo, 3)
	cutStage, cutAt := -1, 0
	switch malformed {
	case "pipelined-trailing":
		cutStage = t.Draw("pstage", len(stages))
	case "truncate", "silence":
		cutStage = t.Draw("cstage", len(stages))
		cutAt = t.Draw("cat", len(stages[cutStage]))
	}

	// bytes that follow the request itself (pipelined-trailing at the last stage)
	var trailer, leftover []byte
	leftoverRead := false
	if malformed == "pipelined-trailing" && cutStage == len(stages)-1 {
		trailer = make([]byte, 1+t.Draw("trailer", 40))
		for i := range trailer {
			trailer[i] = byte(0xC0 + i)
		}
	}
	// ---- history: connections served before this one, and one served alongside
	var minis []*c17Mini
	hist := t.Draw("history", 4)
	if hist >= 2 {
		kinds := []string{"ok", "bind", "udp", "unknown-atyp", "rsv-nonzero"}
		for i, n := 0, 1+t.Draw("history.n", 2); i < n; i++ {
			m := startC17Mini(c, fmt.Sprintf("h%d", i), kinds[t.Draw("history.kind", len(kinds))], false)
			c.S.Run(func() bool { return m.hsDone && m.done }, time.Minute)
			if !m.judge(c, "earlier") {
				return
			}
			c.Feature("history-" + m.kind)
		}
	}
	if hist == 1 || hist == 3 {
		for i, n := 0, 1+t.Draw("alongside.n", 2); i < n; i++ {
			minis = append(minis, startC17Mini(c, fmt.Sprintf("a%d", i), "ok", true))
		}
		c.Feature("other-connections-alongside")
	}
	var req *socks5.Request
	var hsErr error
	var hsDone bool
	var hsTook time.Duration
	var serverOut []byte
	link.B.OnWrite = func(p []byte) { serverOut = append(serverOut, p...) }
	c.S.Go("pt/handshake", func() {
		t0 := time.Now()
		req, hsErr = socks5.Handshake(link.B)
		hsTook = time.Since(t0)
		defer func() { hsDone = true }()
		if hsErr == nil {
			code := socks5.ReplyCode(t.Draw("replycode", 9))
			req.Reply(code)
			if len(trailer) > 0 {
				// whatever the client sent behind its request belongs to the
				// stream that is relayed next: it must still be on the connection
				link.B.SetReadDeadline(time.Now().Add(2 * time.Second))
				buf := make([]byte, len(trailer))
				n, _ := io.ReadFull(link.B, buf)
				link.B.SetReadDeadline(time.Time{})
				leftover, leftoverRead = buf[:n], true
			}
		}
	})
	var clientSaw []byte
	clientDone := false
	c.S.Go("tor/client", func() {
		defer func() { clientDone = true }()
		spent := time.Duration(0)
		send := func(b []byte) bool {
			pos := 0
			for pos < len(b) {
				n := len(b) - pos
				if t.Draw("piece", 3) == 2 {
					n = 1 + t.Draw("piecen", n)
				}
				if _, err := link.A.Write(b[pos : pos+n]); err != nil {
					return false
				}
				pos += n
				if pos < len(b) {
					p := []time.Duration{0, 0, 100 * time.Millisecond, time.Second}[t.Draw("ppause", 4)]
					if spent+p < 4*time.Second {
						spent += p
						c.S.Sleep(p)
					}
				}
			}
			return true
		}
		readN := func(n int) []byte {
			buf := make([]byte, n)
			k, _ := io.ReadFull(link.A, buf)
			clientSaw = append(clientSaw, buf[:k]...)
			return buf[:k]
		}
		for i, m := range stages {
			if i == cutStage && malformed == "truncate" {
				send(m[:cutAt])
				link.A.Close()
				return
			}
			if i == cutStage && malformed == "silence" {
				send(m[:cutAt])
				c.S.Sleep(6 * time.Second)
				readN(16)
				return
			}
			if i == cutStage && malformed == "pipelined-trailing" {
				// the next message (or a stray byte) rides in the same segment
				extra := trailer
				if i+1 < len(stages) {
					extra = stages[i+1]
				}
				link.AB.Policy = 1 // deliver everything in flight at once
				link.A.Write(append(append([]byte{}, m...), extra...))
				readN(32)
				return
			}
			if !send(m) {
				return
			}
			switch stageNo[i] {
			case 1:
				r := readN(2)
				if len(r) < 2 || r[1] == 0xff {
					return
				}
				if useAuth && r[1] != 2 {
					// server preferred "no auth": tor has no way to pass arguments
					useAuth = false
				}
				if !useAuth && r[1] == 2 {
					return
				}
			case 2:
				r := readN(2)
				if len(r) < 2 || r[1] != 0 {
					return
				}
			case 3:
				readN(10)
			}
		}
	})
	c.S.Run(func() bool {
		for _, m := range minis {
			if !m.hsDone || !m.done {
				return false
			}
		}
		return hsDone && clientDone
	}, time.Minute)
	for _, m := range minis {
		if !m.judge(c, "concurrent") {
			return
		}
	}
	c.Reached, c.Nontrivial = true, c.S.Counters["net.split"]+c.S.Counters["net.coalesce"] > 0 || malformed != ""
	if !hsDone {
		c.Violate("C17/handshake-never-returned", "socks5.Handshake still running after a virtual minute (variant %q)", malformed)
		return
	}
	if hsTook > 5*time.Second+time.Millisecond {
		c.Violate("C17/deadline-not-enforced", "Handshake took %v (request timeout is 5 s)", hsTook)
	}
	// the deadline must be disarmed afterwards
	if !link.B.ReadDeadline().IsZero() && hsErr == nil {
		c.Violate("C17/deadline-left-armed", "Handshake succeeded but left a deadline armed on the connection")
	}
	// expected server output: one success reply per completed stage, then (nothing | the stage's failure reply)
	validOut := func(out []byte, failAt int) bool {
		pos := 0
		for _, st := range stageNo {
			if failAt == st || pos == len(out) {
				break
			}
			switch st {
			case 1:
				if len(out) < pos+2 || out[pos] != 5 || (out[pos+1] != 0 && out[pos+1] != 2) {
					return pos+2 <= len(out) && out[pos] == 5 && out[pos+1] == 0xff && pos+2 == len(out)
				}
				pos += 2
			case 2:
				if len(out) < pos+2 || out[pos] != 1 {
					return false
				}
				if out[pos+1] != 0 {
					return pos+2 == len(out)
				}
				pos += 2
			}
		}
		rest := out[pos:]
		if len(rest) == 0 {
			return true
		}
		// a failure reply of some stage
		if len(rest) == 2 && rest[0] == 5 && rest[1] == 0xff {
			return true
		}
		if len(rest) == 2 && rest[0] == 1 && rest[1] != 0 {
			return true
		}
		if len(rest) == 10 && rest[0] == 5 && rest[1] != 0 && rest[2] == 0 && rest[3] == 1 && bytes.Equal(rest[4:], make([]byte, 6)) {
			return true
		}
		return false
	}
	if malformed != "" {
		if hsErr == nil {
			// pipelined data that happened to be delivered separately is a conforming exchange
			if malformed == "pipelined-trailing" || malformed == "silence" && cutAt == 0 {
				if len(trailer) > 0 && leftoverRead && !bytes.Equal(leftover, trailer) {
					c.Violate("C17/bytes-after-request-swallowed", "the client sent %d bytes right behind its request; Handshake succeeded, but only %d of them (% x) can still be read from the connection: the rest was silently dropped from the stream", len(trailer), len(leftover), leftover)
				}
				return
			}
			c.Violate("C17/malformed-accepted", "variant %q: Handshake returned success (target %q, args %v)", malformed, req.Target, req.Args)
			return
		}
		if !validOut(serverOut, failStage) {
			c.Violate("C17/improper-failure-reply", "variant %q failing at stage %d: server wrote % x, which is neither nothing nor the stage's failure reply after the completed stages' replies", malformed, failStage, serverOut)
		}
		if failStage == 3 && len(serverOut) >= 10 {
			code := serverOut[len(serverOut)-9]
			want := map[string]byte{"cmd-bind": 7, "cmd-udp": 7, "unknown-atyp": 8}[malformed]
			if want != 0 && code != want {
				c.Violate("C17/wrong-failure-code", "variant %q answered with reply code %d, expected %d", malformed, code, want)
			}
		}
		return
	}
	if hsErr != nil {
		c.Violate("C17/conforming-rejected", "conforming step-by-step exchange failed: %v (methods % x, auth %v, username %q password %q, request % x)", hsErr, methods, useAuth, uname, passwd, msg3)
		return
	}
	if ok, want := tg.matches(req.Target); !ok {
		c.Violate("C17/target-altered", "client asked for %q (atyp %d), front end reports %q", want, tg.atyp, req.Target)
		return
	}
	// arguments: exactly what was encoded (multi-map, order per key)
	want := map[string][]string{}
	if useAuth {
		for _, a := range args {
			want[a.k] = append(want[a.k], a.v)
		}
	}
	got := map[string][]string(req.Args)
	if !sameArgs(want, got) {
		c.Violate("C17/args-altered", "client encoded %q as username %q password %q, front end parsed %q", args, uname, passwd, got)
		return
	}
	// final reply is the 10-byte RFC 1928 reply
	if n := len(clientSaw); n < 10 || clientSaw[n-10] != 5 || clientSaw[n-8] != 0 || clientSaw[n-7] != 1 {
		c.Violate("C17/bad-final-reply", "client saw % x", clientSaw)
	}
}

func sameArgs(a, b map[string][]string) bool {
	if len(a) != len(b) {
		// an empty map and a nil map are the same thing
		na, nb := 0, 0
		for range a {
			na++
		}
		for range b {
			nb++
		}
		if na != nb {
			return false
		}
	}
	var ks []string
	for k := range a {
		ks = append(ks, k)
	}
	sort.Strings(ks)
	for _, k := range ks {
		x, y := a[k], b[k]
		if len(x) != len(y) {
			return false
		}
		for i := range x {
			if x[i] != y[i] {
				return false
			}
		}
	}
	return true
}

var _ = fmt.Sprint
