package wire

import (
	"fmt"
	"math/rand"
	"net"
	"sort"
	"time"

	"gitlab.com/yawning/obfs4.git/transports"

	"verifsim/harness"
	"verifsim/ref/obfs4ref"
	"verifsim/sim"
	"verifsim/simnet"
)

func init() { register(&harness.Prop{ID: "C09", Run: runC09}) }

// Directed bridge seeds found offline with sim/cmd/seedsearch (the table of
// each is re-derived by the reference below before it is relied on).
var c09Seeds = []struct{ tag, seed string }{
	{"single-34", "000000000000000500000000000000000000000000000000"},
	{"single-4", "00000000000004f800000000000000000000000000000000"},
	{"single-1428", "000000000000119900000000000000000000000000000000"},
	{"pair-1275-0", "00000000000083a200000000000000000000000000000000"},
	{"only-0", "0000000000021e8e00000000000000000000000000000000"},
	{"only-1448", "000000000003ab3900000000000000000000000000000000"},
}

func lengthTable(seedHex string) []int {
	seed := make([]byte, 24)
	mustHex(seed, seedHex)
	return obfs4ref.Table(seed, 0, 1448, rand.New(obfs4ref.NewDrbg(seed)))
}

// burstOK decides whether a burst of L wire bytes carrying an application
// write of n bytes ends on some target of the table per the padding rule.
func burstOK(T []int, n, L int) (bool, string) {
	F := n + 21*((n+1426)/1427)
	pad := L - F
	if pad < 0 {
		return false, fmt.Sprintf("burst of %d bytes is shorter than the %d bytes of payload frames", L, F)
	}
	tail := F % 1448
	for _, t := range T {
		need := ((t-tail)%1448 + 1448) % 1448
		switch {
		case need == 0 && pad == 0:
			return true, ""
		case t == 1448 && tail == 0 && pad == 1448:
			// a target of one full segment on an empty tail: a whole padding
			// segment also "ends on 1448"
			return true, ""
		case need > 21 && pad == need:
			return true, ""
		case need > 0 && need <= 21 && pad == 1448+21+need:
			return true, ""
		}
	}
	return false, fmt.Sprintf("application write of %d bytes (%d bytes of frames, tail %d) went out as %d bytes (padding %d): matches no target of the table under the padding rule", n, F, tail, L, pad)
}

type c09Side struct {
	name      string
	conn      net.Conn // obfs4 conn
	under     *simnet.Conn
	plan      []writePlan
	iat       int
	table     []int // the server's table
	checkFrom func() bool
	wrDone    bool
	bursts    int
	checked   int
	// seedDone, if set, reports whether this side has finished processing the
	// peer's seed frame; seedIdx is the index (in under.Writes) of the first wire
	// write issued after that, -1 until there is one
	seedDone func() bool
	seedIdx  int
	lateChk  int
}

func (sd *c09Side) run(c *harness.Ctx, ending *bool, dir int) {
	has0 := false
	inT := map[int]bool{}
	for _, v := range sd.table {
		inT[v] = true
		if v == 0 {
			has0 = true
		}
	}
	var off int64
	for _, w := range sd.plan {
		if w.PauseMs > 0 {
			c.S.Sleep(msec(w.PauseMs))
		}
		constrained := sd.checkFrom()
		buf := make([]byte, w.Size)
		patFill(dir, off, buf)
		before := len(sd.under.Writes)
		t0, s0 := time.Now(), c.S.Steps()
		// a Write that keeps producing wire writes without ever returning is
		// reported while it is still running (it would otherwise only exhaust
		// the run's step budget, which is never a verdict)
		wireWrites, wireBytes := 0, 0
		size := w.Size
		sd.under.OnWrite = func(p []byte) {
			wireWrites++
			wireBytes += len(p)
			if sd.seedDone != nil && sd.seedIdx < 0 && sd.seedDone() {
				sd.seedIdx = len(sd.under.Writes) - 1
			}
			// everything a terminating Write can need is the payload frames plus a
			// few padding rounds of at most two segments each
			if limit := 8 * (size + 21*((size+1426)/1427) + 3000); wireBytes > limit && wireBytes-len(p) <= limit {
				c.S.Unlock()
				c.Violate("C09/write-does-not-terminate", "%s iat-mode %d: one application Write of %d bytes has produced %d wire writes (%d bytes) so far and has not returned; table %v", sd.name, sd.iat, size, wireWrites, wireBytes, sortedInts(sd.table))
				c.S.Lock()
			}
		}
		n, err := sd.conn.Write(buf)
		sd.under.OnWrite = nil
		for i := range buf {
			buf[i] = 0xEE
		}
		if *ending {
			return
		}
		if err != nil || n != len(buf) {
			c.Violate("C09/write-failed", "%s Write(%d) = (%d, %v)", sd.name, len(buf), n, err)
			return
		}
		// (in the IAT modes every wire write may be followed by a sampled delay of
		// up to 10 ms: a long paranoid Write under a table of tiny lengths is slow
		// by design)
		if d := time.Since(t0); d > 30*time.Second+time.Duration(wireWrites)*11*time.Millisecond {
			c.Violate("C09/write-too-slow", "%s Write(%d bytes) took %v of virtual time (%d scheduler steps)", sd.name, len(buf), d, c.S.Steps()-s0)
			return
		}
		off += int64(n)
		ws := sd.under.Writes[before:]
		sd.bursts++
		total := 0
		for _, x := range ws {
			total += x.N
			if x.N > 1448 && sd.iat != 0 {
				c.Violate("C09/iat-write-exceeds-segment", "%s iat-mode %d: underlying write of %d bytes", sd.name, sd.iat, x.N)
				return
			}
			if x.N == 0 && sd.iat == 2 {
				c.Violate("C09/zero-length-wire-write", "%s: underlying write of 0 bytes", sd.name)
				return
			}
		}
		if sd.iat == 0 && len(ws) != 1 {
			// (how many writes carry a burst is not part of the property: only
			// where the burst ends is.  Counted, not judged.)
			c.Feature("iat0-burst-in-several-writes")
		}
		if !constrained {
			// the seed frame was processed while this Write was running: the
			// lengths it samples from then on are the bridge's.  (The write at
			// seedIdx may have been sampled just before.)
			if sd.iat == 2 && sd.seedIdx >= 0 {
				for i := sd.seedIdx + 1; i < len(sd.under.Writes); i++ {
					if i < before {
						continue
					}
					x := sd.under.Writes[i]
					sd.lateChk++
					if !(inT[x.N] && x.N != 0) && !(has0 && x.N == 1448) {
						c.Violate("C09/paranoid-write-not-sampled", "%s iat-mode 2: the seed frame had been processed before wire write %d of this connection was issued, yet wire write %d (of a Write of %d bytes that began before the seed arrived) has %d bytes: not a non-zero length of the bridge's table %v", sd.name, sd.seedIdx, i, w.Size, x.N, sortedInts(sd.table))
						return
					}
				}
			}
			continue
		}
		sd.checked++
		if sd.iat == 2 {
			for _, x := range ws {
				if !(inT[x.N] && x.N != 0) && !(has0 && x.N == 1448) {
					c.Violate("C09/paranoid-write-not-sampled", "%s iat-mode 2: underlying write of %d bytes is not a non-zero length of the bridge's table %v", sd.name, x.N, sortedInts(sd.table))
					return
				}
			}
			if total < w.Size {
				c.Violate("C09/burst-too-short", "%s: %d wire bytes for %d payload bytes", sd.name, total, w.Size)
			}
			continue
		}
		if ok, why := burstOK(sd.table, w.Size, total); !ok {
			c.Violate("C09/burst-length", "%s iat-mode %d: %s; table %v", sd.name, sd.iat, why, sortedInts(sd.table))
			return
		}
		F := w.Size + 21*((w.Size+1426)/1427)
		switch pad := total - F; {
		case pad == 0:
			c.Feature("pad-0")
		case pad <= 21:
			c.Feature("pad-1..21-IMPOSSIBLE")
		case pad == 22:
			c.Feature("pad-22")
		case pad > 1448:
			c.Feature("pad-two-frames")
		default:
			c.Feature("pad-one-frame")
		}
	}
	sd.wrDone = true
}

func sortedInts(v []int) []int {
	o := append([]int(nil), v...)
	sort.Ints(o)
	if len(o) > 12 {
		return append(o[:12], -1)
	}
	return o
}

// runC09Frequencies: "once a client has processed the server's seed it uses
// the server's distribution" - values AND weights.  Both sides send a few
// thousand one-byte bursts in iat-mode 0; the sampled target of every burst is
// recovered from its length and the empirical distribution is compared with
// the reference's reading of the bridge seed (total variation distance).
func runC09Frequencies(c *harness.Ctx) {
	t := c.T
	bias := t.Draw("bias", 2) == 1
	setBias(bias)
	id := genObfs4Identity(c, 0)
	seed := make([]byte, 24)
	mustHex(seed, id.Seed)
	values, probs := obfs4ref.TableWithWeights(seed, 0, 1448, bias, rand.New(obfs4ref.NewDrbg(seed)))
	// burst length for each target with a 22-byte tail (one byte of payload in one frame)
	byLen := map[int]int{}
	for i, tv := range values {
		need := ((tv-22)%1448 + 1448) % 1448
		L := 22 + need
		if need > 0 && need <= 21 {
			L = 22 + 1448 + 21 + need
		}
		byLen[L] = i
	}
	c.Info["part"], c.Info["bias"], c.Info["table_size"], c.Info["seed"] = "frequencies", bias, len(values), id.Seed
	c.Feature("frequency-run")
	sf, err := obfs4Server(id)
	if err != nil {
		panic(err)
	}
	cf, _ := transports.Get("obfs4").ClientFactory("")
	link := c.Net.NewLink("c", "s")
	link.AB.Policy, link.BA.Policy = simnet.ChunkAll, simnet.ChunkAll
	const N = 3000
	counts := [2][]int{make([]int, len(values)), make([]int, len(values))}
	unknown := [2]int{}
	done := [2]bool{}
	side := func(i int, conn net.Conn, under *simnet.Conn, wait chan struct{}) {
		c.S.Go([]string{"c", "s"}[i]+"/reader", func() {
			buf := make([]byte, 32768)
			first := true
			for {
				n, err := conn.Read(buf)
				if n > 0 && first && wait != nil {
					first = false
					close(wait)
				}
				if err != nil {
					return
				}
			}
		})
		if wait != nil {
			<-wait // the client has delivered server payload: the seed is processed
		}
		for k := 0; k < N; k++ {
			before := len(under.Writes)
			if _, err := conn.Write([]byte{byte(k)}); err != nil {
				c.Violate("C09/write-failed", "frequency run: %v", err)
				return
			}
			ws := under.Writes[before:]
			total := 0
			for _, x := range ws {
				total += x.N // a burst is judged by where it ends, however many writes carry it
			}
			if idx, ok := byLen[total]; ok {
				counts[i][idx]++
			} else {
				unknown[i]++
			}
		}
		done[i] = true
	}
	c.S.Go("s/accept", func() {
		conn, err := sf.WrapConn(link.B)
		if err != nil {
			c.Violate("C09/handshake-failed", "WrapConn: %v", err)
			return
		}
		side(1, conn, link.B, nil)
	})
	c.S.Go("c/dial", func() {
		pa, err := cf.ParseArgs(sf.Args())
		if err != nil {
			panic(err)
		}
		conn, err := cf.Dial("tcp", "x:1", dialTo(link.A), pa)
		if err != nil {
			c.Violate("C09/handshake-failed", "Dial: %v", err)
			return
		}
		side(0, conn, link.A, make(chan struct{}))
	})
	c.S.MaxSteps = 2000000
	c.S.Run(func() bool { return done[0] && done[1] }, time.Hour)
	c.Reached, c.Nontrivial = done[0] && done[1], true
	if c.S.Violated() || !c.Reached {
		return
	}
	for i, who := range []string{"client (after the seed packet)", "server"} {
		if unknown[i] > 0 {
			c.Violate("C09/burst-length", "frequency run: %d of %d one-byte bursts of the %s do not end on any target of the bridge's table", unknown[i], N, who)
			return
		}
		tv := 0.0
		for k := range values {
			d := float64(counts[i][k])/N - probs[k]
			if d < 0 {
				d = -d
			}
			tv += d / 2
		}
		c.Info[fmt.Sprintf("tv_distance_%d", i)] = tv
		if tv > 0.30 {
			c.Violate("C09/distribution-differs-from-bridge", "the %s's %d burst targets are distributed differently from the bridge's seeded distribution (bias=%v, %d values): total variation distance %.2f (sampling noise is below 0.1)", who, N, bias, len(values), tv)
			return
		}
	}
	c.Feature("frequencies-match-bridge-distribution")
}

func runC09(c *harness.Ctx) {
	if !wovenBuild && c.T.Draw("freq", 40) == 39 {
		runC09Frequencies(c)
		return
	}
	defer maybeWoven(c)()
	t := c.T
	iat := t.Draw("iat", 3)
	bias := t.Draw("bias", 2) == 1
	setBias(bias)
	id := genObfs4Identity(c, iat)
	tag := "random"
	if k := t.Draw("seedkind", 3); k == 2 {
		d := c09Seeds[t.Draw("seedidx", len(c09Seeds))]
		id.Seed, tag = d.seed, d.tag
	}
	T := lengthTable(id.Seed)
	has0 := false
	for _, v := range T {
		if v == 0 {
			has0 = true
		}
	}
	c.Info["seed"], c.Info["seed_kind"], c.Info["table_size"], c.Info["table_has_0"] = id.Seed, tag, len(T), has0
	c.Info["iat"], c.Info["bias"] = iat, bias
	c.Feature("seed-" + tag)
	if has0 {
		c.Feature("table-contains-0")
	}
	if len(T) == 1 {
		c.Feature("table-single-value")
	}
	sf, err := obfs4Server(id)
	if err != nil {
		panic(err)
	}
	cf, _ := transports.Get("obfs4").ClientFactory("")
	link := c.Net.NewLink("c", "s")
	c.Info["c2s"] = configurePipe(c, link.AB, "c2s")
	c.Info["s2c"] = configurePipe(c, link.BA, "s2c")
	ending := false

	// directed write sizes: make the burst tail land around the targets
	directed := func(label string, maxN int) []writePlan {
		n := 1 + t.Draw(label+".n", maxN)
		var out []writePlan
		for i := 0; i < n; i++ {
			var sz int
			switch t.Draw(label+".k", 4) {
			case 0:
				sz = c01Sizes[t.Draw(label+".szi", len(c01Sizes))]
			case 1:
				sz = t.Draw(label+".szr", 6000)
			default:
				// tail = size+21 (single frame) near target-23 .. target+2
				tg := T[t.Draw(label+".tg", len(T))]
				sz = tg - 21 - 23 + t.Draw(label+".d", 26)
				if t.Draw(label+".wrap", 3) == 2 {
					sz += 1427 * (1 + t.Draw(label+".frames", 2))
				}
				if sz < 0 {
					sz = 0
				}
			}
			out = append(out, writePlan{Size: sz, PauseMs: []int{0, 0, 1, 30}[t.Draw(label+".pause", 4)]})
		}
		return out
	}
	var clientGot int64 // bytes the client application has received from the server
	cs := &c09Side{name: "c", under: link.A, plan: directed("cw", 5), iat: iat, table: T, seedIdx: -1}
	ss := &c09Side{name: "s", under: link.B, plan: directed("sw", 5), iat: iat, table: T, seedIdx: -1, checkFrom: func() bool { return true }}
	if iat == 0 && t.Draw("huge", 8) == 7 {
		// one very large write whose encoded length lands around a power of two
		// (64 KiB .. 1 MiB of wire bytes): where buffers are flushed or grown
		k := 16 + t.Draw("huge.k", 5)
		W := 1<<uint(k) + t.Draw("huge.delta", 3*1448) - 1448
		q, rem := W/1448, W%1448
		sz := q * 1427
		if rem >= 22 {
			sz += rem - 21
		}
		side := []*c09Side{cs, ss}[t.Draw("huge.side", 2)]
		side.plan = append(side.plan, writePlan{Size: sz})
		link.AB.Policy, link.BA.Policy = simnet.ChunkAll, simnet.ChunkAll
		link.AB.MaxRead, link.BA.MaxRead = 0, 0
		c.S.MaxSteps *= 4
		c.Feature(fmt.Sprintf("huge-write-around-2^%d-wire-bytes", k))
	}
	cs.checkFrom = func() bool { return clientGot > 0 }
	clientWaits := t.Draw("cwait", 2) == 1 // client writes only after it has seen server payload
	c.Info["client_writes"], c.Info["server_writes"], c.Info["client_waits_for_server_data"] = cs.plan, ss.plan, clientWaits
	if planTotal(ss.plan) == 0 {
		clientWaits = false
	}
	// the bridge's inline seed frame (the last 45 bytes of its first write) may
	// be held up for a few milliseconds: the client's Dial returns, its writer
	// starts sampling lengths, and the frame that reseeds the distributions
	// arrives in the middle of that
	if t.Draw("late-seed", 2) == 1 && !clientWaits {
		holdMs := 1 + t.Draw("late-seed.ms", 40)
		hold := time.Duration(holdMs) * time.Millisecond
		// ... and the client's first write waits just as long, so that both
		// become runnable at the same virtual instant and the scheduler decides
		// how they interleave
		if len(cs.plan) == 0 {
			cs.plan = []writePlan{{Size: 1 + t.Draw("late-seed.sz", 3000)}}
		}
		cs.plan[0].PauseMs = holdMs
		if iat == 2 && t.Draw("late-seed.long", 2) == 1 {
			// ... or starts a little earlier and is long enough (a wire write and a
			// sleep of up to 10 ms per sampled length) to be running when it arrives
			cs.plan[0].Size = 3000 + t.Draw("late-seed.lsz", 15000)
			early := holdMs
			if early > 12 {
				early = 12
			}
			cs.plan[0].PauseMs = holdMs - t.Draw("late-seed.early", early+1)
			c.Feature("seed-frame-arrives-during-paranoid-write")
		}
		link.BA.Filter = func(off int64, p []byte) []byte {
			if off == 0 && len(p) > 45 {
				link.BA.AddFaultLocked(simnet.Fault{Kind: simnet.FaultStall, Offset: int64(len(p) - 45), Dur: hold})
			}
			return p
		}
		c.Feature("seed-frame-arrives-late")
	}
	var cUp, sUp bool
	// The client has processed the seed frame once (a) Dial has returned, (b) a
	// read of its obfs4 connection has taken the last byte of the bridge's
	// first write off the wire - whatever Dial left buffered is decoded along
	// with it - and (c) that reader has come back for more.
	var rdCum int64
	seedRead := -1
	link.A.OnRead = func(p []byte) {
		rdCum += int64(len(p))
		if seedRead < 0 && cUp && len(link.B.Writes) > 0 && rdCum >= int64(link.B.Writes[0].N) {
			seedRead = link.A.ReadCalls
		}
	}
	cs.seedDone = func() bool { return seedRead >= 0 && link.A.ReadCalls > seedRead }
	c.S.Go("s/accept", func() {
		conn, err := sf.WrapConn(link.B)
		if err != nil {
			if !ending {
				c.Violate("C09/handshake-failed", "WrapConn: %v", err)
			}
			return
		}
		sUp = true
		ss.conn = conn
		c.S.Go("s/reader", func() {
			buf := make([]byte, 32768)
			for {
				if _, err := conn.Read(buf); err != nil {
					return
				}
			}
		})
		ss.run(c, &ending, 1)
	})
	c.S.Go("c/dial", func() {
		pa, err := cf.ParseArgs(sf.Args())
		if err != nil {
			c.Violate("C09/handshake-failed", "ParseArgs: %v", err)
			return
		}
		conn, err := cf.Dial("tcp", "x:1", dialTo(link.A), pa)
		if err != nil {
			if !ending {
				c.Violate("C09/handshake-failed", "Dial: %v", err)
			}
			return
		}
		cUp = true
		cs.conn = conn
		gotc := make(chan struct{})
		c.S.Go("c/reader", func() {
			buf := make([]byte, 32768)
			for {
				n, err := conn.Read(buf)
				if n > 0 {
					if clientGot == 0 {
						close(gotc)
					}
					clientGot += int64(n)
				}
				if err != nil {
					return
				}
			}
		})
		if clientWaits {
			<-gotc
		}
		cs.run(c, &ending, 0)
	})
	stop := c.S.Run(func() bool { return cUp && sUp && cs.wrDone && ss.wrDone }, 20*time.Minute)
	c.Reached = cUp && sUp
	c.Nontrivial = cs.checked+ss.checked > 0
	if cs.checked > 0 {
		c.Feature("client-burst-checked-against-server-table")
	}
	if cs.lateChk > 0 {
		c.Feature("client-wire-writes-checked-after-seed-arrived-mid-write")
	}
	if stop == sim.StopTime && !c.S.Violated() {
		c.Violate("C09/write-never-returned", "after 20 virtual minutes a Write is still in progress (client done %v, server done %v; blocked: %v)", cs.wrDone, ss.wrDone, c.S.LiveTasks())
	}
	ending = true
}
