package wire

import (
	"fmt"
	"os"
	"strconv"
	"time"

	"verifsim/harness"
	"verifsim/ref/obfs4ref"
	"verifsim/sim"
	"verifsim/simnet"
)

func init() { register(&harness.Prop{ID: "C04", Run: runC04}) }

type c04Blob struct {
	id       int
	bytes    []byte
	eph      *obfs4ref.Keypair
	hour     int64 // stamped
	accepted int   // times accepted so far
}

type c04Sub struct {
	blob     *c04Blob
	accepted bool
	wrote    int
	done     bool
	boundOK  bool
	detail   string
	sentHour int64
}

func runC04(c *harness.Ctx) {
	defer maybeWoven(c)()
	if wovenBuild {
		// a stalled handler thread: time may pass between two statements of one
		// connection's handshake while another connection is served
		c.S.TimeSkip = []int{0, 20, 100}[c.T.Draw("timeskip", 3)]
		c.S.SkipMax = 100 * time.Millisecond
		c.S.SkipBudget = time.Second
	}
	t := c.T
	setBias(false)
	id := genObfs4Identity(c, 0)
	rid := refIdentity(id)
	sf, err := obfs4Server(id)
	if err != nil {
		panic(err)
	}
	// start within +-2 s of an hour boundary half of the time
	switch t.Draw("t0", 4) {
	case 1:
		c.S.Sleep(time.Hour - 2*time.Second + time.Duration(t.Draw("t0ms", 4000))*time.Millisecond)
	case 2:
		c.S.Sleep(time.Duration(t.Draw("t0min", 60)) * time.Minute)
	}
	// how long a reference client waits for an answer before it takes silence
	// for a rejection (longer when the simulated machine may stall)
	patience, settle := 2*time.Second, 5*time.Second
	if c.S.TimeSkip > 0 {
		patience, settle = 5*time.Second, 8*time.Second
	}
	var blobs []*c04Blob
	nSub := 0
	newBlob := func(off int64) *c04Blob {
		b := &c04Blob{id: len(blobs), eph: obfs4ref.NewKeypair(refEntropy{c, "ref.eph"})}
		pad := make([]byte, edgeRange(c, "pad", obfs4ref.ClientMinPad, 600))
		c.Rand.Fill("ref.pad", pad)
		b.hour = nowHour() + off
		b.bytes = obfs4ref.ClientRequest(rid, b.eph, pad, b.hour)
		blobs = append(blobs, b)
		return b
	}
	// lateOff/lateDelay: the connection is accepted now, the client crafts and
	// sends its handshake only lateDelay later, stamped lateOff hours off the
	// clock of that moment (set by the "slow" operation below, else zero)
	var lateDelay time.Duration
	var lateOff int64
	submit := func(b *c04Blob) *c04Sub {
		nSub++
		n := nSub
		sub := &c04Sub{blob: b}
		delay, off := lateDelay, lateOff
		l := c.Net.NewLink(fmt.Sprintf("r%d", n), fmt.Sprintf("s%d", n))
		l.AB.Policy = t.Draw("chunk", 3) // burst / all / mss; zero latency so processing happens at this instant
		c.S.Go(fmt.Sprintf("s%d/accept", n), func() {
			conn, err := sf.WrapConn(l.B)
			if err == nil {
				conn.Close()
			}
		})
		c.S.Go(fmt.Sprintf("r%d/submit", n), func() {
			defer func() { sub.done = true }()
			if b == nil {
				c.S.Sleep(delay)
				b = newBlob(off)
				sub.blob = b
				sub.sentHour = nowHour()
			}
			if _, err := l.A.Write(b.bytes); err != nil {
				sub.detail = "write: " + err.Error()
				return
			}
			l.A.SetReadDeadline(time.Now().Add(patience))
			var buf []byte
			tmp := make([]byte, 8192)
			for {
				k, err := l.A.Read(tmp)
				buf = append(buf, tmp[:k]...)
				sub.wrote += k
				if k > 0 {
					r, perr := obfs4ref.ParseServerResponse(rid, b.eph, b.hour, buf)
					if perr == nil {
						sub.accepted = true
						// bound to the hour the client used: no other hour verifies
						sub.boundOK = true
						for _, h := range []int64{b.hour - 1, b.hour + 1, nowHour()} {
							if h == b.hour {
								continue
							}
							if _, e2 := obfs4ref.ParseServerResponse(rid, b.eph, h, buf[:r.Length]); e2 == nil {
								sub.boundOK = false
							}
						}
						l.A.Close()
						return
					}
					if perr != obfs4ref.ErrNeedMore {
						sub.detail = "response does not verify: " + perr.Error()
						l.A.Close()
						return
					}
				}
				if err != nil {
					l.A.Close()
					return
				}
			}
		})
		return sub
	}
	check := func(sub *c04Sub, E int64, expectAccept bool, what string) {
		b := sub.blob
		if !sub.done {
			c.Violate("C04/submission-stuck", "%s: submission did not finish", what)
			return
		}
		if sub.detail != "" && sub.wrote > 0 {
			c.Violate("C04/bad-response", "%s: server answered %d bytes but %s (stamped hour %d, server hour %d)", what, sub.wrote, sub.detail, b.hour, E)
			return
		}
		if sub.accepted && !expectAccept {
			if b.accepted > 0 {
				c.Violate("C04/replay-accepted", "%s: blob %d (stamped hour %d) had already been accepted %d time(s) by this running bridge and was accepted again at server hour %d", what, b.id, b.hour, b.accepted, E)
			} else {
				c.Violate("C04/out-of-window-accepted", "%s: blob stamped hour %d accepted at server hour %d (offset %+d)", what, b.hour, E, b.hour-E)
			}
			return
		}
		if !sub.accepted && expectAccept {
			c.Violate("C04/fresh-rejected", "%s: fresh blob stamped hour %d rejected at server hour %d (offset %+d); %s", what, b.hour, E, b.hour-E, sub.detail)
			return
		}
		if !sub.accepted && sub.wrote > 0 {
			c.Violate("C04/rejected-but-answered", "%s: rejected submission still got %d bytes from the server", what, sub.wrote)
			return
		}
		if sub.accepted && !sub.boundOK {
			c.Violate("C04/reply-not-bound-to-client-hour", "%s: the reply to a request stamped hour %d also verifies under another hour", what, b.hour)
		}
	}
	inWindow := func(h, E int64) bool { return h >= E-1 && h <= E+1 }

	// (about a minute of wall clock: the run with index 0 of every check - one
	// run per invocation, on the first worker - and one run in 5000 of the
	// thorough tier; VERIF_C04_FLOOD_1IN overrides the rate)
	floodIn := 0
	if c.Tier == "thorough" {
		floodIn = 5000
	}
	if v, err := strconv.Atoi(os.Getenv("VERIF_C04_FLOOD_1IN")); err == nil {
		floodIn = v
	}
	// Run 2 (the second worker on the unwoven build) holds the sister history:
	// 102 000 *genuine* handshakes (60 000 in the quick tier) - fewer than the filter has
	// room for - and
	// then a replay of the first.
	genuineFlood := !wovenBuild && c.Run == 2
	if !wovenBuild && (c.Run == 0 || genuineFlood || floodIn > 0 && t.Draw("junk-flood", floodIn) == floodIn-1) {
		sim.RunWallExtra.Store(900)
		// A long history: one genuine handshake is accepted, then more
		// connections than the filter has room for present its X and mark with
		// junk where the MAC belongs (anyone who has seen the handshake on the
		// wire can do that) and hang up, then the genuine handshake is replayed.
		// Only one handshake is being remembered, so the replay must be refused.
		c.S.MaxSteps = 80000000
		if genuineFlood {
			c.Feature("genuine-flood-then-replay")
		} else {
			c.Feature("junk-flood-then-replay")
		}
		a := newBlob(int64(t.Draw("flood.hoff", 2)))
		sub := submit(a)
		c.S.Run(func() bool { return sub.done }, settle)
		check(sub, nowHour(), true, "flood: the genuine handshake")
		if c.S.Violated() || !sub.accepted {
			return
		}
		a.accepted++
		floodN := 102400 + 64
		if genuineFlood {
			floodN = 102000
			if c.Tier != "thorough" {
				floodN = 60000 // the quick tier settles for well over half the filter
			}
		}
		const batch = 64
		body := a.bytes[:len(a.bytes)-16]
		// genuine handshakes in bulk: one ephemeral key, a different padding each
		// time (the MAC covers the padding, so every one is a distinct handshake)
		gEph := obfs4ref.NewKeypair(refEntropy{c, "ref.eph.flood"})
		gHour := nowHour()
		done := 0
		var batchLinks []*simnet.Link
		for base := 0; base < floodN && !c.S.Violated(); base += batch {
			for i := base; i < base+batch && i < floodN; i++ {
				i := i
				l := c.Net.NewLink(fmt.Sprintf("j%d", i), fmt.Sprintf("sj%d", i))
				batchLinks = append(batchLinks, l)
				l.AB.Policy = simnet.ChunkAll
				if genuineFlood {
					c.S.Go(fmt.Sprintf("sj%d/accept", i), func() {
						conn, err := sf.WrapConn(l.B)
						if err == nil {
							conn.Close()
						} else if len(l.B.Writes) == 0 {
							c.Violate("C04/fresh-rejected", "flood: genuine handshake %d of %d was refused: %v", i, floodN, err)
						}
						l.B.Close()
						done++
					})
					c.S.Go(fmt.Sprintf("j%d/genuine", i), func() {
						pad := make([]byte, obfs4ref.ClientMinPad+i%300)
						for k := range pad {
							pad[k] = byte(uint64(i) >> (8 * uint(k%8)))
						}
						l.A.Write(obfs4ref.ClientRequest(rid, gEph, pad, gHour))
						buf := make([]byte, 64)
						l.A.Read(buf) // the beginning of the answer (or the end of the connection)
						l.A.Close()
					})
					continue
				}
				c.S.Go(fmt.Sprintf("sj%d/accept", i), func() {
					conn, err := sf.WrapConn(l.B)
					if err == nil {
						conn.Close()
						c.Violate("C04/out-of-window-accepted", "flood: a handshake with junk in place of its MAC was accepted")
					}
					if len(l.B.Writes) != 0 {
						c.Violate("C04/rejected-but-answered", "flood: the server wrote to a connection that presented junk in place of the MAC")
					}
					done++
				})
				c.S.Go(fmt.Sprintf("j%d/junk", i), func() {
					msg := append(append([]byte(nil), body...), make([]byte, 16)...)
					for k := 0; k < 8; k++ {
						msg[len(msg)-16+k] = byte(uint64(i) >> (8 * uint(k)))
						msg[len(msg)-8+k] = byte(0xA5 ^ k)
					}
					l.A.Write(msg)
					l.A.Close()
				})
			}
			want := base + batch
			if want > floodN {
				want = floodN
			}
			c.S.Run(func() bool { return done >= want }, 3*time.Minute)
			for _, l := range batchLinks {
				c.Net.Forget(l)
			}
			batchLinks = batchLinks[:0]
			if done < want {
				c.Violate("C04/submission-stuck", "flood: after %d junk connections the server has not let go of %d of them three minutes after the peer hung up", want, want-done)
				return
			}
		}
		if c.S.Violated() {
			return
		}
		kind := "connections that presented junk MACs"
		if genuineFlood {
			kind = "further genuine handshakes (fewer than the filter remembers)"
			c.S.Count("fault.genuine-handshakes-in-bulk", int64(floodN))
		} else {
			c.S.Count("fault.junk-connections", int64(floodN))
		}
		sub = submit(a)
		c.S.Run(func() bool { return sub.done }, settle)
		check(sub, nowHour(), false, fmt.Sprintf("flood: replay of the first handshake after %d %s", floodN, kind))
		c.Info["history"] = []string{"genuine accepted", fmt.Sprintf("%d %s", floodN, kind), "replay"}
		c.Reached, c.Nontrivial = true, true
		return
	}
	maxOps := 10
	if c.Tier == "thorough" {
		maxOps = 18
	}
	nOps := 1 + t.Draw("nops", maxOps)
	var hist []string
	for op := 0; op < nOps && !c.S.Violated(); op++ {
		gap := []time.Duration{0, 0, time.Second, 10 * time.Minute, 59 * time.Minute, time.Hour, 2 * time.Hour, 3*time.Hour + 10*time.Minute, 2*time.Hour + 59*time.Minute + 59*time.Second}[t.Draw("gap", 9)]
		if gap > 0 {
			c.S.Sleep(gap)
		}
		if c.S.TimeSkip > 0 {
			// under stalls a submission may be processed up to the skip budget
			// later than it was crafted: stay clear of the next hour boundary so
			// that "the server's hour when it processes it" is well defined
			if left := time.Hour - time.Duration(time.Now().UnixNano()%int64(time.Hour)); left < 2*time.Second {
				c.S.Sleep(left + time.Millisecond)
			}
		}
		kind := t.Draw("op", 5)
		if len(blobs) == 0 && (kind == 1) {
			kind = 0
		}
		if kind == 4 && c.S.TimeSkip > 0 {
			kind = 0
		}
		E := nowHour()
		switch kind {
		case 4: // slow: accepted shortly before an hour boundary, handshake sent after it
			pre := []time.Duration{time.Second, 5 * time.Second, 15 * time.Second}[t.Draw("slow.pre", 3)]
			if t.Draw("slow.cross", 4) != 0 {
				left := time.Hour - time.Duration(time.Now().UnixNano()%int64(time.Hour))
				if left > pre {
					c.S.Sleep(left - pre)
				} else {
					c.S.Sleep(left + time.Hour - pre)
				}
			}
			lateDelay = pre + []time.Duration{time.Second, 3 * time.Second, 9 * time.Second}[t.Draw("slow.more", 3)]
			lateOff = int64(t.Draw("hoff", 7)) - 3
			if t.Draw("hoff.in", 2) == 0 {
				lateOff = int64(t.Draw("hoff.w", 3)) - 1
			}
			acceptHour := nowHour()
			sub := submit(nil)
			delay := lateDelay
			lateDelay, lateOff = 0, 0
			c.S.Run(func() bool { return sub.done }, delay+settle)
			if sub.blob == nil {
				c.Violate("C04/submission-stuck", "op %d slow: the client task never ran", op)
				break
			}
			b := sub.blob
			what := fmt.Sprintf("op %d slow(accepted at server hour %d, handshake sent %v later at server hour %d, stamped %+d)", op, acceptHour, delay, sub.sentHour, b.hour-sub.sentHour)
			check(sub, sub.sentHour, inWindow(b.hour, sub.sentHour), what)
			if sub.accepted {
				b.accepted++
			}
			hist = append(hist, fmt.Sprintf("+%v slow%+d(%v)=%v", gap, b.hour-sub.sentHour, delay, sub.accepted))
			if acceptHour != sub.sentHour {
				c.Feature("handshake-sent-in-the-hour-after-accept")
			}
		case 0: // fresh
			off := int64(t.Draw("hoff", 7)) - 3
			if t.Draw("hoff.in", 2) == 0 {
				off = int64(t.Draw("hoff.w", 3)) - 1
			}
			b := newBlob(off)
			sub := submit(b)
			c.S.Run(func() bool { return sub.done }, settle)
			what := fmt.Sprintf("op %d fresh(offset %+d)", op, off)
			check(sub, E, inWindow(b.hour, E), what)
			if sub.accepted {
				b.accepted++
			}
			hist = append(hist, fmt.Sprintf("+%v fresh%+d=%v", gap, off, sub.accepted))
			c.Feature(fmt.Sprintf("fresh-offset%+d", off))
		case 1: // replay of an earlier blob
			b := blobs[t.Draw("which", len(blobs))]
			sub := submit(b)
			c.S.Run(func() bool { return sub.done }, settle)
			what := fmt.Sprintf("op %d replay(blob %d)", op, b.id)
			check(sub, E, b.accepted == 0 && inWindow(b.hour, E), what)
			if sub.accepted {
				b.accepted++
			}
			hist = append(hist, fmt.Sprintf("+%v replay#%d=%v", gap, b.id, sub.accepted))
			if b.accepted > 0 {
				c.Feature("replay-of-accepted")
			} else {
				c.Feature("resubmit-of-never-accepted")
			}
		default: // simultaneous submissions of one blob
			var b *c04Blob
			if len(blobs) > 0 && t.Draw("simold", 3) == 2 {
				b = blobs[t.Draw("which", len(blobs))]
			} else {
				b = newBlob(int64(t.Draw("hoff.w", 3)) - 1)
			}
			k := 2 + t.Draw("simn", 3)
			var subs []*c04Sub
			for i := 0; i < k; i++ {
				subs = append(subs, submit(b))
			}
			c.S.Run(func() bool {
				for _, s := range subs {
					if !s.done {
						return false
					}
				}
				return true
			}, settle)
			acc := 0
			for _, s := range subs {
				if s.accepted {
					acc++
				}
				if s.accepted && !s.boundOK {
					c.Violate("C04/reply-not-bound-to-client-hour", "simultaneous: reply verifies under another hour")
				}
				if !s.accepted && s.wrote > 0 {
					c.Violate("C04/rejected-but-answered", "op %d simultaneous: a rejected copy got %d bytes", op, s.wrote)
				}
			}
			want := 0
			if b.accepted == 0 && inWindow(b.hour, E) {
				want = 1
			}
			if acc > want {
				c.Violate("C04/replay-accepted", "op %d: %d simultaneous submissions of blob %d (stamped %d, accepted %d times before) at server hour %d: %d were accepted, at most %d may be", op, k, b.id, b.hour, b.accepted, E, acc, want)
			} else if acc < want {
				c.Violate("C04/fresh-rejected", "op %d: none of %d simultaneous submissions of a fresh valid blob was accepted", op, k)
			}
			b.accepted += acc
			hist = append(hist, fmt.Sprintf("+%v %dx#%d=%d", gap, k, b.id, acc))
			c.Feature("simultaneous")
		}
	}
	c.Info["history"] = hist
	c.Reached = true
	c.Nontrivial = len(hist) > 1
}
