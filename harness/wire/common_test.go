// Engine "wire" (build variant B1): the repository packages are compiled
// exactly as they are; preemption points are the operations on the simulated
// net.Conn plus explicit harness steps.
package wire

import (
	"crypto/rand"
	"encoding/hex"
	"flag"
	"fmt"
	"io"
	mrand "math/rand"
	"net"
	"os"
	"sync"
	"testing"

	pt "gitlab.torproject.org/tpo/anti-censorship/pluggable-transports/goptlib"

	"gitlab.com/yawning/obfs4.git/common/csrand"
	"gitlab.com/yawning/obfs4.git/transports"
	"gitlab.com/yawning/obfs4.git/transports/base"

	"verifsim/harness"
	"verifsim/ref/obfs4ref"
	"verifsim/simnet"
)

var props = map[string]*harness.Prop{}

// wovenBuild is set by harness/woven/b2_test.go when this package is built as
// the woven engine (B2); activateWoven then turns the woven yields on for a run.
var (
	wovenBuild      bool
	activateWoven   func(c *harness.Ctx, label string)
	deactivateWoven func()
)

// maybeWoven enables statement-level preemption when running on the B2 build.
func maybeWoven(c *harness.Ctx) func() {
	if !wovenBuild {
		return func() {}
	}
	activateWoven(c, "b2")
	c.S.MaxSteps *= 5
	c.Feature("woven-yields-active")
	// tasks still unwind through woven code during teardown: switch the
	// runtime off only afterwards
	c.AtEnd(deactivateWoven)
	return func() {}
}

type linkT = simnet.Link

func register(p *harness.Prop) {
	if p.Variant == "" {
		p.Variant = "B1"
	}
	props[p.ID] = p
}

var origCsrandReader = csrand.Reader

var env = &harness.Env{
	SetEntropy: func(r io.Reader) {
		if r == nil {
			csrand.Reader = origCsrandReader
		} else {
			csrand.Reader = r
		}
	},
}

var (
	stateDirOnce sync.Once
	stateDir     string
)

// scratchDir is a per-process directory on the real file system for the
// files the obfs4 server factory insists on writing (B1 has no disk seam; the
// contents never influence a run because identities are passed explicitly).
func scratchDir() string {
	stateDirOnce.Do(func() {
		// On a memory file system if there is one: the factory rewrites its state
		// file (with fsync, since the C18 repair) on every start, i.e. in every
		// run of every worker, and a real disk under that load has been seen to
		// stall a rename for more than a minute.  Otherwise in the worker's own
		// working directory (the runner's per-check output directory), never in
		// the system temp directory that others clean.
		d, err := os.MkdirTemp("/dev/shm", "verif-scratch-state-")
		if err != nil {
			wd, werr := os.Getwd()
			if werr != nil {
				panic(werr)
			}
			d, err = os.MkdirTemp(wd, "scratch-state-")
			if err != nil {
				panic(err)
			}
		}
		stateDir = d
	})
	return stateDir
}

func TestVerif(t *testing.T) {
	if err := transports.Init(); err != nil {
		t.Fatal(err)
	}
	defer func() {
		if stateDir != "" {
			os.RemoveAll(stateDir)
		}
	}()
	harness.Main(t, env, props)
}

// pat is the position-coded stream content: byte i of direction d.
func pat(d int, i int64) byte {
	x := uint64(i)*0x9e3779b97f4a7c15 + uint64(d)*0x632be59bd9b4e019
	x ^= x >> 29
	return byte(x ^ x>>8 ^ x>>17 ^ x>>43)
}

func patFill(d int, off int64, p []byte) {
	for i := range p {
		p[i] = pat(d, off+int64(i))
	}
}

func patCheck(d int, off int64, p []byte) int {
	for i := range p {
		if p[i] != pat(d, off+int64(i)) {
			return i
		}
	}
	return -1
}

func randHex(c *harness.Ctx, stream string, n int) string {
	b := make([]byte, n)
	c.Rand.Fill(stream, b)
	return hex.EncodeToString(b)
}

// obfs4Identity is what a bridge operator would configure explicitly.
type obfs4Identity struct {
	NodeID, PrivKey, Seed string
	IAT                   int
}

func genObfs4Identity(c *harness.Ctx, iat int) obfs4Identity {
	return obfs4Identity{NodeID: randHex(c, "cfg.nodeid", 20), PrivKey: randHex(c, "cfg.key", 32), Seed: randHex(c, "cfg.seed", 24), IAT: iat}
}

func obfs4Server(id obfs4Identity) (base.ServerFactory, error) {
	args := &pt.Args{}
	args.Add("node-id", id.NodeID)
	args.Add("private-key", id.PrivKey)
	args.Add("drbg-seed", id.Seed)
	args.Add("iat-mode", fmt.Sprint(id.IAT))
	return transports.Get("obfs4").ServerFactory(scratchDir(), args)
}

func setBias(on bool) {
	v := "false"
	if on {
		v = "true"
	}
	if err := flag.Set("obfs4-distBias", v); err != nil {
		panic(err)
	}
}

// range sizes of the obfs4 client and server handshake padding
var obfs4PadRanges = []int{obfs4ref.ClientMaxPad - obfs4ref.ClientMinPad + 1, obfs4ref.ServerMaxPad + 1}

// steerPads installs harness.SteeredSource behind csrand.Rand for this run
// (two runs in three).
func steerPads(c *harness.Ctx, ranges ...int) {
	if c.T.Draw("steer-rand", 3) == 0 {
		return
	}
	src := harness.NewSteeredSource(csrand.Bytes, ranges...)
	orig := csrand.Rand
	csrand.Rand = mrand.New(src)
	c.AtEnd(func() {
		csrand.Rand = orig
		c.S.Count("fault.steered-random-draw", src.Hits())
	})
}

func dialTo(conn net.Conn) base.DialFunc {
	return func(string, string) (net.Conn, error) { return conn, nil }
}

// configurePipe draws the chunking / latency configuration of one direction.
func configurePipe(c *harness.Ctx, p *simnet.Pipe, label string) map[string]interface{} {
	t := c.T
	p.Policy = t.Draw(label+".chunk", simnet.NumChunk)
	p.Lazy = t.Draw(label+".lazy", 4) == 3
	p.MaxRead = []int{0, 0, 1, 7, 1427, 1448, 1449, 4096}[t.Draw(label+".maxread", 8)]
	lat := []int{0, 0, 1, 50}[t.Draw(label+".lat", 4)]
	p.Latency = msec(lat)
	p.ErrWithData = t.Draw(label+".errwithdata", 4) == 3
	return map[string]interface{}{"chunk": simnet.ChunkNames[p.Policy], "lazy": p.Lazy, "maxread": p.MaxRead, "latency_ms": lat, "err_with_data": p.ErrWithData}
}

var _ = rand.Reader

// companionPair: in one run of four the same factories serve a second
// real<->real connection at the same time, with its own position-coded content
// (directions 2 and 3): whatever two connections share inside the process must
// not let bytes of one show up, or go missing, in the other.  Returns the
// completion predicate and a function that reports the companion if it is
// still incomplete when the run ends.
func companionPair(c *harness.Ctx, prop string, cf base.ClientFactory, sf base.ServerFactory, ending *bool) (func() bool, func()) {
	t := c.T
	if t.Draw("companion", 4) != 3 {
		return func() bool { return true }, func() {}
	}
	l := c.Net.NewLink("c2", "s2")
	configurePipe(c, l.AB, "c2s2")
	configurePipe(c, l.BA, "s2c2")
	cs := &streamSide{name: "c2", dirOut: 2, dirIn: 3, plan: drawWrites(c, "cw2", 4), rdBuf: []int{32768, 1427, 4096}[t.Draw("c2.rdbuf", 3)], ending: ending}
	ss := &streamSide{name: "s2", dirOut: 3, dirIn: 2, plan: drawWrites(c, "sw2", 4), rdBuf: []int{32768, 1427, 4096}[t.Draw("s2.rdbuf", 3)], ending: ending}
	cs.expectIn, ss.expectIn = planTotal(ss.plan), planTotal(cs.plan)
	c.Info["companion_client_writes"], c.Info["companion_server_writes"] = cs.plan, ss.plan
	c.Feature("second-connection-alongside")
	var cUp, sUp bool
	c.S.Go("s2/accept", func() {
		conn, err := sf.WrapConn(l.B)
		if err != nil {
			if !*ending {
				c.Violate(prop+"/handshake-failed", "second connection, server WrapConn: %v", err)
			}
			return
		}
		sUp = true
		ss.start(c, conn, prop)
	})
	c.S.Go("c2/dial", func() {
		conn, err := cf.Dial("tcp", "x:2", dialTo(l.A), nil)
		if err != nil {
			if !*ending {
				c.Violate(prop+"/handshake-failed", "second connection, client Dial: %v", err)
			}
			return
		}
		cUp = true
		cs.start(c, conn, prop)
	})
	done := func() bool { return cUp && sUp && cs.complete() && ss.complete() }
	report := func() {
		if !done() && !c.S.Violated() {
			c.Violate(prop+"/stalled-bytes", "the second connection served alongside is incomplete at the end of the run: handshakes done client=%v server=%v; client read %d of %d, server read %d of %d", cUp, sUp, cs.gotIn, cs.expectIn, ss.gotIn, ss.expectIn)
		}
	}
	return done, report
}
