package wire

import (
	"bytes"
	"fmt"
	"net"
	"time"

	pt "gitlab.torproject.org/tpo/anti-censorship/pluggable-transports/goptlib"

	"gitlab.com/yawning/obfs4.git/transports"

	"verifsim/harness"
	"verifsim/ref/obfs4ref"
	"verifsim/sim"
	"verifsim/simnet"
)

func init() { register(&harness.Prop{ID: "C02", Run: runC02}) }

// lowOrderReps are representatives that decode to low-order u-coordinates
// (found with the reference's inverse map; 0 decodes to u=0).
var lowOrderReps = func() [][32]byte {
	var out [][32]byte
	low := obfs4ref.LowOrderU()
	isLow := func(u [32]byte) bool {
		for _, l := range low {
			if l == u {
				return true
			}
		}
		return false
	}
	var zero [32]byte
	if isLow(obfs4ref.RepToPublic(zero)) {
		out = append(out, zero)
	}
	for _, u := range low {
		for ch := 0; ch < 2; ch++ {
			if r, ok := obfs4ref.PublicToRep(u, ch, 0); ok && isLow(obfs4ref.RepToPublic(r)) {
				out = append(out, r)
			}
		}
	}
	return out
}()

func clientArgsFor(rid obfs4ref.Identity, iat int, legacy bool) *pt.Args {
	args := &pt.Args{}
	if legacy {
		args.Add("node-id", rid.NodeIDHex())
		args.Add("public-key", rid.PubHex())
	} else {
		args.Add("cert", rid.Cert())
	}
	args.Add("iat-mode", fmt.Sprint(iat))
	return args
}

// echoCheck exchanges a little client-specific data over an established
// pair and reports whether both directions carried it exactly.
type dialOutcome struct {
	conn     net.Conn
	err      error
	took     time.Duration
	done     bool
	appBytes int
}

func runC02(c *harness.Ctx) {
	t := c.T
	kind := t.Draw("kind", 9)
	iat := 0
	setBias(false)
	steerPads(c, obfs4PadRanges...)
	id := genObfs4Identity(c, iat)
	rid := refIdentity(id)
	cf, _ := transports.Get("obfs4").ClientFactory("")
	ending := false
	kinds := []string{"control", "client-wrong-identity", "impostor-server", "tampered-response", "concurrent-clients", "impostor-low-order", "low-order-identity-key", "server-key-after-failed-answers", "answer-recorded-cut-and-replayed"}
	c.Info["kind"] = kinds[kind]
	c.Feature("kind-" + kinds[kind])
	if kind == 2 || kind == 5 || kind == 6 {
		c.S.Count("fault.impostor-"+kinds[kind], 1)
	}
	start := time.Now()

	dial := func(name string, link *linkT, args *pt.Args, out *dialOutcome) {
		c.S.Go(name+"/dial", func() {
			pa, err := cf.ParseArgs(args)
			if err != nil {
				out.err, out.done = err, true
				return
			}
			conn, err := cf.Dial("tcp", "10.0.0.2:443", dialTo(link.A), pa)
			out.conn, out.err, out.took, out.done = conn, err, time.Since(start), true
		})
	}
	mustFail := func(o *dialOutcome, what string) {
		if !o.done {
			c.Violate("C02/dial-never-returned", "%s: Dial has not returned after %v", what, time.Since(start))
			return
		}
		if o.err == nil {
			c.Violate("C02/completed-with-wrong-peer", "%s: Dial completed although the peer does not hold the bridge identity key / the response was modified", what)
			return
		}
		if o.took > 61*time.Second {
			c.Violate("C02/late-failure", "%s: Dial failed only after %v (client handshake deadline is 60 s)", what, o.took)
		}
	}

	switch kind {
	case 8:
		// An on-path party lets the client's handshake through to the genuine
		// bridge, records the answer, delivers none (or only a part) of it and
		// cuts the connection.  Whatever connection the client opens next - its
		// Dial is given a dialer, not a connection - is answered by a peer that
		// holds no key at all and plays the recording back.  The recording is
		// only worth something if the client repeats its ephemeral key.
		sf, err := obfs4Server(id)
		if err != nil {
			panic(err)
		}
		var recorded []byte
		var reqs [][]byte // what the client put on each wire connection
		nconn := 0
		srvDone := false
		// (the shortest possible answer - no padding - has 96 bytes: the cut always falls inside it)
		cutAt := int64([]int{0, 0, 1, 31, 32, 64, 95}[t.Draw("cutat", 7)])
		cutKind := []string{simnet.FaultCutRST, simnet.FaultCutEOF}[t.Draw("cutkind", 2)]
		dialer := func(string, string) (net.Conn, error) {
			i := nconn
			nconn++
			l := c.Net.NewLink(fmt.Sprintf("c%d", i), fmt.Sprintf("s%d", i))
			reqs = append(reqs, nil)
			l.A.OnWrite = func(b []byte) { reqs[i] = append(reqs[i], b...) }
			if i == 0 {
				l.B.OnWrite = func(b []byte) { recorded = append(recorded, b...) }
				l.BA.AddFault(simnet.Fault{Kind: cutKind, Offset: cutAt})
				c.S.Go("s0/accept", func() {
					conn, err := sf.WrapConn(l.B)
					if err == nil {
						conn.Close()
					}
					srvDone = true
				})
				return l.A, nil
			}
			if i > 3 {
				return nil, fmt.Errorf("verif: connection refused")
			}
			c.S.Go(fmt.Sprintf("s%d/playback", i), func() {
				// wait for the recording to be complete (the bridge has answered)
				for k := 0; k < 500 && !srvDone; k++ {
					c.S.Sleep(10 * time.Millisecond)
				}
				l.B.Write(recorded)
				buf := make([]byte, 4096)
				for {
					if _, err := l.B.Read(buf); err != nil {
						return
					}
				}
			})
			return l.A, nil
		}
		var out dialOutcome
		c.S.Go("c/dial", func() {
			pa, err := cf.ParseArgs(clientArgsFor(rid, iat, false))
			if err != nil {
				panic(err)
			}
			conn, err := cf.Dial("tcp", "10.0.0.2:443", dialer, pa)
			out.conn, out.err, out.took, out.done = conn, err, time.Since(start), true
		})
		c.S.Run(func() bool { return out.done }, 5*time.Minute)
		c.S.Count("fault.answer-recorded-cut-replayed", 1)
		c.Reached, c.Nontrivial = true, true
		ending = true
		mustFail(&out, fmt.Sprintf("the genuine answer was recorded, the connection cut (%s after %d bytes of it), and the recording played back on the %d further connection(s) the client opened", cutKind, cutAt, nconn-1))
		if c.S.Violated() {
			return
		}
		for i := range reqs {
			for j := i + 1; j < len(reqs); j++ {
				if len(reqs[i]) >= 32 && len(reqs[j]) >= 32 && bytes.Equal(reqs[i][:32], reqs[j][:32]) {
					c.Violate("C02/ephemeral-key-reused", "the client put the same 32-byte representative (its ephemeral public key) on wire connections %d and %d of one Dial", i, j)
					return
				}
			}
		}
		if nconn > 1 {
			c.Feature("client-opened-further-connections")
		}
	case 7:
		// fresh ephemeral keys under faults: the answers of a few connections
		// fail to go out (the client resets, or the write fails, somewhere
		// inside the server's response); the Y of every answer the bridge starts
		// to send - on those connections and on a clean one afterwards - differs
		sf, err := obfs4Server(id)
		if err != nil {
			panic(err)
		}
		var firsts [][]byte
		n := 1 + t.Draw("nfail", 3)
		for i := 0; i <= n; i++ {
			l := c.Net.NewLink(fmt.Sprintf("c%d", i), fmt.Sprintf("s%d", i))
			configurePipe(c, l.BA, fmt.Sprintf("s2c%d", i))
			l.BA.Lazy = false
			var first []byte
			l.B.OnWrite = func(b []byte) {
				if len(first) < 32 {
					first = append(first, b...)
				}
			}
			clean := i == n
			if !clean {
				at := int64(t.Draw("failat", 4000))
				kindF := []string{simnet.FaultWriteErr, simnet.FaultCutRST, simnet.FaultCutEOF}[t.Draw("failkind", 3)]
				l.BA.AddFault(simnet.Fault{Kind: kindF, Offset: at})
			}
			srvDone, cliDone := false, false
			c.S.Go(fmt.Sprintf("s%d/accept", i), func() {
				conn, err := sf.WrapConn(l.B)
				if err == nil {
					conn.Close()
				}
				srvDone = true
			})
			c.S.Go(fmt.Sprintf("c%d/client", i), func() {
				hs := refClientHandshake(c, l.A, rid, refClientOpts{PadLen: obfs4ref.ClientMinPad + t.Draw("cpad", 500)})
				if clean && hs.End == nil && !ending {
					c.Violate("C02/genuine-handshake-failed", "after %d connections whose answers failed to go out, a clean handshake with the same bridge failed: parse=%v read=%v", n, hs.ParseErr, hs.ReadErr)
				}
				l.A.Close()
				cliDone = true
			})
			c.S.Run(func() bool { return srvDone && cliDone }, 3*time.Minute)
			if len(first) >= 32 {
				firsts = append(firsts, append([]byte(nil), first[:32]...))
			}
			if c.S.Violated() {
				break
			}
		}
		for i := range firsts {
			for j := i + 1; j < len(firsts); j++ {
				if bytes.Equal(firsts[i], firsts[j]) {
					c.Violate("C02/ephemeral-key-reused", "the bridge put the same 32-byte representative (its ephemeral public key) on the wire in answers %d and %d; the earlier connection's answer had failed to go out", i, j)
				}
			}
		}
		c.S.Count("fault.server-answer-fails", int64(n))
		c.Reached, c.Nontrivial = true, len(firsts) > 1
	case 0, 4: // control / concurrent clients against one factory
		sf, err := obfs4Server(id)
		if err != nil {
			panic(err)
		}
		n := 1
		if kind == 4 {
			n = 2 + t.Draw("nclients", 5)
		}
		c.Info["clients"] = n
		type pair struct {
			link   *linkT
			cs, ss *streamSide
			cUp    bool
			sUp    bool
			first  [2][]byte
		}
		var pairs []*pair
		for i := 0; i < n; i++ {
			i := i
			cn, sn := fmt.Sprintf("c%d", i), fmt.Sprintf("s%d", i)
			l := c.Net.NewLink(cn, sn)
			configurePipe(c, l.AB, cn+".c2s")
			configurePipe(c, l.BA, cn+".s2c")
			p := &pair{link: l}
			// client-specific content: direction ids 2i / 2i+1
			p.cs = &streamSide{name: cn, dirOut: 2 * i, dirIn: 2*i + 1, plan: drawWrites(c, cn+".w", 2), rdBuf: 4096, ending: &ending}
			p.ss = &streamSide{name: sn, dirOut: 2*i + 1, dirIn: 2 * i, plan: drawWrites(c, sn+".w", 2), rdBuf: 4096, ending: &ending}
			if len(p.cs.plan) == 0 {
				p.cs.plan = []writePlan{{Size: 100 + i}}
			}
			if len(p.ss.plan) == 0 {
				p.ss.plan = []writePlan{{Size: 200 + i}}
			}
			p.cs.expectIn, p.ss.expectIn = planTotal(p.ss.plan), planTotal(p.cs.plan)
			l.A.OnWrite = func(b []byte) {
				if p.first[0] == nil && len(b) >= 32 {
					p.first[0] = append([]byte(nil), b[:32]...)
				}
			}
			l.B.OnWrite = func(b []byte) {
				if p.first[1] == nil && len(b) >= 32 {
					p.first[1] = append([]byte(nil), b[:32]...)
				}
			}
			pairs = append(pairs, p)
			c.S.Go(sn+"/accept", func() {
				conn, err := sf.WrapConn(l.B)
				if err != nil {
					if !ending {
						c.Violate("C02/genuine-handshake-failed", "server WrapConn for client %d: %v", i, err)
					}
					return
				}
				p.sUp = true
				p.ss.start(c, conn, "C02")
			})
			c.S.Go(cn+"/dial", func() {
				pa, err := cf.ParseArgs(sf.Args())
				if err != nil {
					c.Violate("C02/genuine-handshake-failed", "ParseArgs: %v", err)
					return
				}
				conn, err := cf.Dial("tcp", "10.0.0.2:443", dialTo(l.A), pa)
				if err != nil {
					if !ending {
						c.Violate("C02/genuine-handshake-failed", "client %d Dial against the genuine bridge: %v", i, err)
					}
					return
				}
				p.cUp = true
				p.cs.start(c, conn, "C02")
			})
		}
		stop := c.S.Run(func() bool {
			for _, p := range pairs {
				if !(p.cUp && p.sUp && p.cs.complete() && p.ss.complete()) {
					return false
				}
			}
			return true
		}, 10*time.Minute)
		c.Reached = true
		c.Nontrivial = n > 1 || c.S.Counters["net.split"] > 0
		if stop == sim.StopTime {
			c.Violate("C02/genuine-incomplete", "genuine client/server pairs did not finish their exchange (blocked: %v)", c.S.LiveTasks())
		}
		// fresh ephemeral keys: the first 32 wire bytes of every request and response are pairwise distinct
		seen := map[string]string{}
		for i, p := range pairs {
			for d, f := range p.first {
				if f == nil {
					continue
				}
				k := string(f)
				who := fmt.Sprintf("pair %d dir %d", i, d)
				if prev, dup := seen[k]; dup {
					c.Violate("C02/ephemeral-key-reused", "%s and %s put the same 32-byte representative on the wire", prev, who)
				}
				seen[k] = who
			}
		}
	case 1: // client configured with a different node ID or public key
		sf, err := obfs4Server(id)
		if err != nil {
			panic(err)
		}
		wrong := rid
		which := t.Draw("which", 3)
		if which == 0 || which == 2 {
			wrong.NodeID[t.Draw("nidbyte", 20)] ^= 1 << uint(t.Draw("nidbit", 8))
		}
		if which == 1 || which == 2 {
			other := genObfs4Identity(c, 0)
			_ = other
			var priv [32]byte
			c.Rand.Fill("cfg.otherkey", priv[:])
			wrong.Pub = obfs4ref.NewIdentity(wrong.NodeID, priv).Pub
		}
		c.Info["wrong"] = []string{"node-id", "public-key", "both"}[which]
		l := c.Net.NewLink("c", "s")
		configurePipe(c, l.AB, "c2s")
		configurePipe(c, l.BA, "s2c")
		var o dialOutcome
		var sErr error
		var sDone bool
		c.S.Go("s/accept", func() {
			conn, err := sf.WrapConn(l.B)
			sErr, sDone = err, true
			if err == nil {
				conn.Close()
			}
		})
		dial("c", l, clientArgsFor(wrong, iat, t.Draw("legacy", 2) == 1), &o)
		c.S.Run(func() bool { return o.done && sDone }, 3*time.Minute)
		c.Reached, c.Nontrivial = true, true
		mustFail(&o, "client with wrong "+c.Info["wrong"].(string))
		if sDone && sErr == nil {
			c.Violate("C02/server-accepted-wrong-identity", "server completed a handshake with a client configured for another identity")
		}
		if len(l.B.Writes) != 0 {
			c.Violate("C02/server-answered-wrong-identity", "server wrote %d times to a client that does not know its identity", len(l.B.Writes))
		}
	case 2, 5: // impostor that knows the whole public bridge line but not the private key
		l := c.Net.NewLink("c", "r")
		configurePipe(c, l.AB, "c2s")
		configurePipe(c, l.BA, "s2c")
		fake := rid
		c.Rand.Fill("ref.fakekey", fake.Priv[:]) // Pub stays the genuine one
		variant := t.Draw("variant", 3)
		if kind == 5 {
			variant = 3
		}
		c.Info["impostor"] = []string{"auth-from-other-key", "random-auth", "genuine-key-control", "low-order-Y"}[variant]
		ident := fake
		if variant == 2 {
			ident = rid
		}
		seed := make([]byte, 24)
		c.Rand.Fill("ref.seed", seed)
		var eph *obfs4ref.Keypair
		if variant == 3 && len(lowOrderReps) > 0 {
			eph = obfs4ref.NewKeypair(refEntropy{c, "ref.eph"})
			eph.Rep = lowOrderReps[t.Draw("lo", len(lowOrderReps))]
			eph.Rep[31] |= byte(t.Draw("lotop", 4)) << 6
			eph.Pub = obfs4ref.RepToPublic(eph.Rep)
			ident = rid // even the genuine key must not help: the DH result is degenerate
		}
		if variant == 1 {
			l.BA.Filter = func(off int64, p []byte) []byte {
				for i := range p {
					if o := off + int64(i); o >= 32 && o < 64 {
						p[i] ^= 0x5a
					}
				}
				return p
			}
		}
		var o dialOutcome
		var hs *refServerResult
		c.S.Go("r/accept", func() {
			hs = refServerHandshake(c, l.B, ident, refServerOpts{PadLen: edgeRange(c, "spad", 0, obfs4ref.ServerMaxPad), Seed: seed, Eph: eph})
			if hs.End != nil {
				// impostor pushes application data regardless
				l.B.Write(hs.End.sess.Frame(obfs4ref.PacketPayload, []byte("IMPOSTOR DATA"), 0))
			}
		})
		dial("c", l, clientArgsFor(rid, iat, t.Draw("legacy", 2) == 1), &o)
		c.S.Run(func() bool { return o.done }, 3*time.Minute)
		c.Reached, c.Nontrivial = true, true
		if variant == 2 {
			if !o.done || o.err != nil {
				c.Violate("C02/control-failed", "reference server holding the genuine key was refused: %v", o.err)
			}
		} else {
			mustFail(&o, "impostor ("+c.Info["impostor"].(string)+")")
		}
	case 6: // bridge line whose identity public key is a low-order point: nobody holds a matching private key
		l := c.Net.NewLink("c", "r")
		configurePipe(c, l.AB, "c2s")
		configurePipe(c, l.BA, "s2c")
		low := obfs4ref.LowOrderU()
		bad := rid
		bad.Pub = low[t.Draw("lowkey", len(low))]
		if t.Draw("noncanon", 3) == 2 {
			bad.Pub[31] |= 0x80 // non-canonical encoding of the same point
		}
		c.Info["identity_public_key"] = fmt.Sprintf("%x", bad.Pub)
		seed := make([]byte, 24)
		c.Rand.Fill("ref.seed", seed)
		var o dialOutcome
		c.S.Go("r/accept", func() {
			// the impostor knows only the public bridge line; EXP(B,x) is all-zero whatever x is
			var buf []byte
			tmp := make([]byte, 8192)
			for {
				n, err := l.B.Read(tmp)
				buf = append(buf, tmp[:n]...)
				if req, perr := obfs4ref.ParseClientRequest(bad, nowHour(), buf); perr == nil {
					eph := obfs4ref.NewKeypair(refEntropy{c, "ref.eph"})
					pad := make([]byte, t.Draw("spad", 300))
					resp, ks := obfs4ref.ServerReplyForged(bad, eph, req, pad)
					sess := obfs4ref.NewSession(ks[:], false)
					l.B.Write(append(append(resp, sess.Frame(obfs4ref.PacketPrngSeed, seed, 0)...), sess.Frame(obfs4ref.PacketPayload, []byte("IMPOSTOR DATA"), 0)...))
					return
				}
				if err != nil {
					return
				}
			}
		})
		dial("c", l, clientArgsFor(bad, iat, t.Draw("legacy", 2) == 1), &o)
		c.S.Run(func() bool { return o.done }, 3*time.Minute)
		c.Reached, c.Nontrivial = true, true
		mustFail(&o, "impostor exploiting a low-order identity key in the bridge line")
	case 3: // genuine server, response modified on the path
		sf, err := obfs4Server(id)
		if err != nil {
			panic(err)
		}
		l := c.Net.NewLink("c", "s")
		configurePipe(c, l.AB, "c2s")
		configurePipe(c, l.BA, "s2c")
		field := t.Draw("field", 6)
		fields := []string{"Y'", "AUTH", "padding", "M_S", "MAC_S", "truncate-in-mac"}
		c.Info["field"] = fields[field]
		c.Feature("tamper-" + fields[field])
		bit := t.Draw("bit", 8)
		frac := t.Draw("pos", 1000)
		tampered := false
		key := append(append([]byte{}, rid.Pub[:]...), rid.NodeID[:]...)
		_ = key
		// what the handshake part of the response was, and what the client was given in its place
		var genuine, given []byte
		silent := false
		l.BA.Filter = func(off int64, p []byte) []byte {
			if silent {
				return p[:0]
			}
			if off != 0 && tampered && len(given) < len(genuine) {
				given = append(given, p...)
			}
			if off != 0 || tampered || len(p) < 96 {
				return p
			}
			// locate M_S with public knowledge only
			mark := obfs4ref.Mark(rid, p[:32])
			pos := bytes.Index(p[64:], mark)
			if pos < 0 {
				return p
			}
			pos += 64
			var lo, hi int
			switch field {
			case 0:
				lo, hi = 0, 32
			case 1:
				lo, hi = 32, 64
			case 2:
				lo, hi = 64, pos
			case 3:
				lo, hi = pos, pos+16
			case 4, 5:
				lo, hi = pos+16, pos+32
			}
			if hi <= lo {
				lo, hi = 32, 64 // no padding in this response: hit AUTH instead
			}
			at := lo + frac*(hi-lo)/1000
			tampered = true
			c.S.CountLocked("fault.tamper-response-"+fields[field], 1)
			c.Info["tamper_offset"] = at
			if field == 5 {
				// cut inside MAC_S; either nothing more is ever delivered, or
				// whatever the server sends next is spliced on behind the cut
				genuine = append([]byte(nil), p[:pos+32]...)
				given = append([]byte(nil), p[:at]...)
				silent = bit%2 == 0
				return p[:at]
			}
			if field == 0 && at == 31 && bit >= 6 {
				bit = 0 // the two top bits of the representative are not part of the key
			}
			p[at] ^= 1 << uint(bit)
			return p
		}
		var o dialOutcome
		c.S.Go("s/accept", func() {
			conn, err := sf.WrapConn(l.B)
			if err == nil {
				conn.Write([]byte("server application data"))
			}
		})
		dial("c", l, clientArgsFor(rid, iat, false), &o)
		c.S.Run(func() bool { return o.done }, 3*time.Minute)
		c.Reached = true
		c.Nontrivial = tampered
		if tampered && field == 5 && len(given) >= len(genuine) && bytes.Equal(given[:len(genuine)], genuine) {
			// the bytes spliced on behind the cut happen to equal the ones cut
			// out (one byte of MAC_S: 1 in 256): the client saw the genuine
			// handshake, byte for byte, and may complete
			c.Feature("splice-recreated-the-genuine-handshake")
		} else if tampered {
			mustFail(&o, "response with modified "+fields[field])
		} else if o.err != nil {
			c.Violate("C02/genuine-handshake-failed", "untampered handshake failed: %v", o.err)
		}
	}
	ending = true
}
