package wire

import (
	"bytes"
	"fmt"
	"time"

	pt "gitlab.torproject.org/tpo/anti-censorship/pluggable-transports/goptlib"

	"gitlab.com/yawning/obfs4.git/transports"

	"verifsim/harness"
	"verifsim/ref/obfs4ref"
	"verifsim/sim"
)

func init() { register(&harness.Prop{ID: "C06", Run: runC06}) }

// edgeRange draws from [lo,hi] with the extremes over-represented.
func edgeRange(c *harness.Ctx, label string, lo, hi int) int {
	switch c.T.Draw(label+".k", 6) {
	case 0:
		return lo
	case 1:
		return hi
	case 2:
		return lo + 1
	case 3:
		return hi - 1
	}
	return c.T.Range(label+".v", lo, hi)
}

func runC06(c *harness.Ctx) {
	t := c.T
	realIsClient := t.Draw("role", 2) == 0
	iat := t.Draw("iat", 3)
	setBias(t.Draw("bias", 2) == 1)
	steerPads(c, obfs4PadRanges...)
	id := genObfs4Identity(c, iat)
	rid := refIdentity(id)
	link := c.Net.NewLink("c", "s")
	c.Info["c2s"] = configurePipe(c, link.AB, "c2s")
	c.Info["s2c"] = configurePipe(c, link.BA, "s2c")
	c.Info["iat"] = iat
	// start somewhere inside an hour (sometimes right at a boundary)
	startOff := []time.Duration{0, 0, 59*time.Minute + 59*time.Second + 900*time.Millisecond, 17 * time.Minute}[t.Draw("t0", 4)]
	ending := false
	var realSide *streamSide
	var refSide *refStream
	var realUp, refUp bool
	if realIsClient {
		c.Info["mode"] = "real client / reference server"
		legacy := t.Draw("legacy", 2) == 1
		c.Info["bridge_line"] = map[bool]string{false: "cert", true: "node-id+public-key"}[legacy]
		realSide = &streamSide{name: "c", dirOut: 0, dirIn: 1, plan: drawWrites(c, "cw", 5), rdBuf: []int{32768, 1, 7, 1427, 4096}[t.Draw("c.rdbuf", 5)], ending: &ending}
		refSide = &refStream{name: "r", dirOut: 1, dirIn: 0, plan: drawWrites(c, "rw", 5), ending: &ending, prop: "C06", extras: true}
		padLen := edgeRange(c, "spad", 0, obfs4ref.ServerMaxPad)
		seed := make([]byte, 24)
		c.Rand.Fill("ref.seed", seed)
		split := t.Draw("splitseed", 3) == 2
		c.Info["server_pad"], c.Info["split_seed"] = padLen, split
		cf, _ := transports.Get("obfs4").ClientFactory("")
		c.S.Go("r/accept", func() {
			c.S.Sleep(startOff)
			hs := refServerHandshake(c, link.B, rid, refServerOpts{PadLen: padLen, Seed: seed, SplitSeed: split})
			if hs.End == nil {
				if !ending {
					c.Violate("C06/ref-rejects-real-client", "reference server could not accept the real client's handshake (%d bytes): parse=%v read=%v", len(hs.RawReq), hs.ParseErr, hs.ReadErr)
				}
				return
			}
			// layout and range checks on what the real client sent
			if n := len(hs.RawReq); n < 32+obfs4ref.ClientMinPad+32 || n > obfs4ref.MaxHandshakeLength {
				c.Violate("C06/client-handshake-length", "real client handshake is %d bytes", n)
			}
			if hs.Req.Hour != nowHour() {
				c.Violate("C06/client-hour", "real client stamped hour %d, clock hour is %d", hs.Req.Hour, nowHour())
			}
			c.Feature(fmt.Sprintf("client-pad-%s", padClass(hs.Req.PadLen, obfs4ref.ClientMinPad, obfs4ref.ClientMaxPad)))
			refUp = true
			refSide.start(c, hs.End)
		})
		c.S.Go("c/dial", func() {
			c.S.Sleep(startOff)
			args := &pt.Args{}
			if legacy {
				args.Add("node-id", rid.NodeIDHex())
				args.Add("public-key", rid.PubHex())
			} else {
				args.Add("cert", rid.Cert())
			}
			args.Add("iat-mode", fmt.Sprint(iat))
			pa, err := cf.ParseArgs(args)
			if err != nil {
				c.Violate("C06/bridge-line-rejected", "real client rejected a conforming bridge line (%v): %v", *args, err)
				return
			}
			conn, err := cf.Dial("tcp", "10.0.0.2:443", dialTo(link.A), pa)
			if err != nil {
				if !ending {
					c.Violate("C06/real-client-rejects-ref", "real client failed against the reference server: %v", err)
				}
				return
			}
			realUp = true
			realSide.start(c, conn, "C06")
		})
	} else {
		c.Info["mode"] = "reference client / real server"
		sf, err := obfs4Server(id)
		if err != nil {
			panic(err)
		}
		realSide = &streamSide{name: "s", dirOut: 1, dirIn: 0, plan: drawWrites(c, "sw", 5), rdBuf: []int{32768, 1, 7, 1427, 4096}[t.Draw("s.rdbuf", 5)], ending: &ending}
		refSide = &refStream{name: "r", dirOut: 0, dirIn: 1, plan: drawWrites(c, "rw", 5), ending: &ending, prop: "C06", extras: true}
		padLen := edgeRange(c, "cpad", obfs4ref.ClientMinPad, obfs4ref.ClientMaxPad)
		hourOff := int64([]int{0, 0, 0, -1, 1}[t.Draw("hoff", 5)])
		c.Info["client_pad"], c.Info["hour_offset"] = padLen, hourOff
		// the advertised arguments must describe this identity
		if cert, _ := sf.Args().Get("cert"); cert != rid.Cert() {
			c.Violate("C06/advertised-cert", "server advertises cert %q, reference derives %q from the same identity", cert, rid.Cert())
		}
		var seedWant []byte = make([]byte, 24)
		mustHex(seedWant, id.Seed)
		c.S.Go("s/accept", func() {
			c.S.Sleep(startOff)
			conn, err := sf.WrapConn(link.B)
			if err != nil {
				if !ending {
					c.Violate("C06/real-server-rejects-ref", "real server rejected the reference client's handshake (pad %d, hour offset %d): %v", padLen, hourOff, err)
				}
				return
			}
			realUp = true
			realSide.start(c, conn, "C06")
		})
		c.S.Go("r/dial", func() {
			c.S.Sleep(startOff)
			hs := refClientHandshake(c, link.A, rid, refClientOpts{PadLen: padLen, HourOff: hourOff})
			if hs.End == nil {
				if !ending {
					c.Violate("C06/ref-rejects-real-server", "reference client cannot complete with the real server: parse=%v read=%v (%d response bytes)", hs.ParseErr, hs.ReadErr, len(hs.RawResp))
				}
				return
			}
			if hs.Resp.PadLen > obfs4ref.ServerMaxPad || hs.Resp.Length+obfs4ref.SeedFrameLength > obfs4ref.MaxHandshakeLength {
				c.Violate("C06/server-handshake-length", "real server response is %d bytes (pad %d); with the seed frame it exceeds %d", hs.Resp.Length, hs.Resp.PadLen, obfs4ref.MaxHandshakeLength)
			}
			c.Feature(fmt.Sprintf("server-pad-%s", padClass(hs.Resp.PadLen, 0, obfs4ref.ServerMaxPad)))
			first := true
			refSide.early = hs.Early
			refSide.onPacket = func(p obfs4ref.Packet) {
				if first {
					first = false
					if p.Type != obfs4ref.PacketPrngSeed || len(p.Payload) != 24 || len(p.Padding) != 0 {
						c.Violate("C06/seed-frame", "first frame after the server response is type %d, %d payload bytes, %d padding bytes; expected the unpadded 24-byte PRNG seed packet", p.Type, len(p.Payload), len(p.Padding))
					} else if !bytes.Equal(p.Payload, seedWant) {
						c.Violate("C06/seed-value", "inline seed %x differs from the bridge's configured seed %x", p.Payload, seedWant)
					} else {
						c.Feature("seed-frame-verified")
					}
					return
				}
				if p.Type != obfs4ref.PacketPayload {
					c.Violate("C06/unexpected-packet-type", "real server sent packet type %d after the seed frame", p.Type)
				}
			}
			refUp = true
			refSide.start(c, hs.End)
		})
	}
	ls := t.Draw("longstream", 25)
	if ls == 23 && t.Draw("carry", 6) == 5 {
		// more than 65 536 frames each way: the frame counter (an 8-byte
		// big-endian integer that starts at 1) carries out of its two low
		// bytes.  One-byte application writes keep the volume small.
		realSide.plan = []writePlan{{Size: 1, Count: 66100}}
		refSide.plan = []writePlan{{Size: 1, Count: 66100}}
		link.AB.Policy, link.BA.Policy = 0, 0
		link.AB.MaxRead, link.BA.MaxRead = 0, 0
		c.S.MaxSteps = 40000000
		c.Feature("frame-counter-past-65536-each-way")
	}
	if ls == 24 {
		// several hundred frames each way: the frame counter and the length-mask
		// generator run past 255 (and, from the real side in iat-mode 2, far beyond)
		long := func() []writePlan {
			var p []writePlan
			for i := 0; i < 60; i++ {
				p = append(p, writePlan{Size: 8000})
			}
			return p
		}
		realSide.plan, refSide.plan = long(), long()
		link.AB.Policy, link.BA.Policy = 0, 0
		link.AB.MaxRead, link.BA.MaxRead = 0, 0
		c.S.MaxSteps = 3000000
		c.Feature("long-stream-480KB-each-way")
	}
	refSide.expectIn, realSide.expectIn = planTotal(realSide.plan), planTotal(refSide.plan)
	c.Info["real_writes"], c.Info["ref_writes"] = realSide.plan, refSide.plan
	stop := c.S.Run(func() bool { return realUp && refUp && realSide.complete() && refSide.complete() }, 10*time.Minute+2*time.Hour)
	c.Reached = realUp && refUp
	c.Nontrivial = c.Reached && realSide.expectIn+refSide.expectIn > 0
	if stop == sim.StopTime {
		c.Violate("C06/incomplete", "no progress for the horizon: real up=%v ref up=%v; real side read %d of %d (writer done %v); reference decoded %d of %d (writer done %v)",
			realUp, refUp, realSide.gotIn, realSide.expectIn, realSide.wrDone, refSide.gotIn, refSide.expectIn, refSide.wrDone)
	} else if stop == sim.StopCond {
		c.S.Run(func() bool { return false }, time.Minute)
	}
	ending = true
}

func padClass(v, lo, hi int) string {
	switch {
	case v == lo:
		return "min"
	case v == hi:
		return "max"
	case v < lo || v > hi:
		return "OUT-OF-RANGE"
	}
	return "mid"
}
