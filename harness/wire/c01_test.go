package wire

import (
	"fmt"
	"io"
	"net"
	"time"

	"gitlab.com/yawning/obfs4.git/transports"

	"verifsim/harness"
	"verifsim/sim"
	"verifsim/simnet"
)

func msec(n int) time.Duration { return time.Duration(n) * time.Millisecond }

// interesting application write sizes: around packet (1427), segment (1448)
// and multi-frame boundaries.
var c01Sizes = []int{0, 1, 2, 21, 22, 23, 100, 1426, 1427, 1428, 1447, 1448, 1449, 2853, 2854, 2855, 4281, 4282, 8000}

type writePlan struct {
	Size    int
	PauseMs int
	// Count > 1 repeats the write (one frame per repetition from the
	// reference peer, one Write call per repetition from the real side).
	Count int `json:",omitempty"`
}

func drawWrites(c *harness.Ctx, label string, maxN int) []writePlan {
	t := c.T
	if c.Tier == "thorough" {
		maxN *= 2 // deeper write sequences in the thorough tier
	}
	n := t.Draw(label+".n", maxN+1)
	var out []writePlan
	for i := 0; i < n; i++ {
		var sz int
		if t.Draw(label+".szk", 4) == 3 {
			sz = t.Draw(label+".szr", 9000)
		} else {
			sz = c01Sizes[t.Draw(label+".szi", len(c01Sizes))]
		}
		pause := []int{0, 0, 0, 1, 30, 1000, 45000}[t.Draw(label+".pause", 7)]
		out = append(out, writePlan{Size: sz, PauseMs: pause})
	}
	return out
}

func planTotal(p []writePlan) int64 {
	var n int64
	for _, w := range p {
		n += int64(w.Size) * int64(w.reps())
	}
	return n
}

func (w writePlan) reps() int {
	if w.Count > 1 {
		return w.Count
	}
	return 1
}

// streamSide drives one endpoint of an established connection: a writer task
// executing its plan and a reader task checking every byte against the
// position-coded content of the opposite direction.
type streamSide struct {
	name     string
	dirOut   int
	dirIn    int
	plan     []writePlan
	rdBuf    int
	expectIn int64
	gotIn    int64
	wrDone   bool
	rdErr    error
	// rdDeadlineMs > 0: the application polls - it arms a read deadline of
	// that many (virtual) milliseconds before every Read, and reads on after a
	// timeout.  A timeout is not a fault of the stream: nothing may be lost.
	rdDeadlineMs int
	timeouts     int
	// hang-up: this side's application closes its connection as soon as
	// hangUpWhen() holds (it has written and received everything and the peer
	// has finished writing); what it wrote last may still be on its way, so the
	// peer can meet the end of the stream in the same read as the last bytes.
	hangUpWhen func() bool
	hungUp     *bool // set once this side has closed
	peerHungUp *bool // set once the peer has closed: EOF is then the proper end
	endReads   int
	endSeen    bool // the end of the stream has been reported to this side's reader
	ending     *bool
}

func (sd *streamSide) start(c *harness.Ctx, conn net.Conn, prop string) {
	s := c.S
	s.Go(sd.name+"/writer", func() {
		var off int64
		for _, w := range sd.plan {
			if w.PauseMs > 0 {
				c.S.Sleep(msec(w.PauseMs))
			}
			buf := make([]byte, w.Size)
			for rep := 0; rep < w.reps(); rep++ {
				patFill(sd.dirOut, off, buf)
				n, err := conn.Write(buf)
				// io.Writer: "Write must not retain p" - the application is free to
				// reuse its buffer as soon as Write has returned (io.Copy does)
				for i := range buf {
					buf[i] = 0xEE
				}
				if *sd.ending {
					return
				}
				if err != nil || n != len(buf) {
					c.Violate(prop+"/write-failed", "%s Write(%d bytes at offset %d, call %d of %d) = (%d, %v)", sd.name, len(buf), off, rep+1, w.reps(), n, err)
					return
				}
				off += int64(n)
			}
		}
		sd.wrDone = true
		sd.maybeHangUp(c, conn)
	})
	s.Go(sd.name+"/reader", func() {
		buf := make([]byte, sd.rdBuf)
		for {
			if sd.hungUp != nil && *sd.hungUp {
				return // this side closed the connection itself
			}
			if sd.rdDeadlineMs > 0 {
				if err := conn.SetReadDeadline(time.Now().Add(msec(sd.rdDeadlineMs))); err != nil {
					c.Violate(prop+"/set-read-deadline-failed", "%s SetReadDeadline: %v", sd.name, err)
					return
				}
			}
			n, err := conn.Read(buf)
			if *sd.ending {
				return
			}
			if ne, ok := err.(net.Error); ok && ne.Timeout() && sd.rdDeadlineMs > 0 {
				c.S.Count("fault.read-deadline-expired", 1)
				err = nil
				// after a number of timeouts the application goes back to
				// blocking reads (keeps the cost of idle stretches bounded)
				if sd.timeouts++; sd.timeouts >= 40 {
					sd.rdDeadlineMs = 0
					if err := conn.SetReadDeadline(time.Time{}); err != nil {
						c.Violate(prop+"/set-read-deadline-failed", "%s SetReadDeadline(zero): %v", sd.name, err)
						return
					}
				}
			}
			if n > 0 {
				if bad := patCheck(sd.dirIn, sd.gotIn, buf[:n]); bad >= 0 {
					c.Violate(prop+"/wrong-bytes", "%s Read returned %d bytes at stream offset %d; byte %d differs from what the peer wrote (got %#x want %#x); peer wrote %d bytes in total",
						sd.name, n, sd.gotIn, sd.gotIn+int64(bad), buf[bad], pat(sd.dirIn, sd.gotIn+int64(bad)), sd.expectIn)
					return
				}
				sd.gotIn += int64(n)
				if sd.gotIn > sd.expectIn {
					c.Violate(prop+"/extra-bytes", "%s has read %d bytes but the peer only wrote %d", sd.name, sd.gotIn, sd.expectIn)
					return
				}
			}
			if n > 0 {
				sd.maybeHangUp(c, conn)
			}
			if err != nil && sd.hungUp != nil && *sd.hungUp {
				return // this side closed the connection itself
			}
			if err == io.EOF && sd.peerHungUp != nil && *sd.peerHungUp {
				// the peer hung up: the stream ends here.  Everything it wrote
				// must be readable: an application that reads on while data keeps
				// coming gets all of it (completeness is judged by the run)
				sd.endSeen = true
				if n == 0 {
					if sd.endReads++; sd.endReads >= 3 {
						return
					}
				}
				continue
			}
			if err != nil && n == 0 && sd.endSeen {
				// reading on after the end of the stream has been reported: any
				// error will do (obfs3 closes its connection when the end arrives
				// during its magic scan and reports that from then on)
				return
			}
			if err != nil {
				sd.rdErr = err
				c.Violate(prop+"/read-error", "%s Read failed with %v after %d of %d bytes on a healthy connection", sd.name, err, sd.gotIn, sd.expectIn)
				return
			}
		}
	})
}

// maybeHuge: in one run of ten one side's plan gets a single very large write
// (around 64 KiB, 128 KiB, ... where write paths chunk, flush or grow their
// buffers); the link then delivers in large pieces so that the run stays cheap.
func maybeHuge(c *harness.Ctx, link *linkT, a, b *streamSide) {
	t := c.T
	if t.Draw("huge-write", 10) != 9 {
		return
	}
	sz := []int{65535, 65536, 65537, 100000, 131072, 131073, 300000, 1 << 20}[t.Draw("huge-write.size", 8)]
	if t.Draw("huge-write.off", 3) == 2 {
		sz += t.Draw("huge-write.delta", 3000) - 1500
	}
	side := a
	if t.Draw("huge-write.side", 2) == 1 {
		side = b
	}
	side.plan = append(side.plan, writePlan{Size: sz})
	for _, p := range []*simnet.Pipe{link.AB, link.BA} {
		if p.Policy != simnet.ChunkBurst && p.Policy != simnet.ChunkAll && p.Policy != simnet.ChunkMSS {
			p.Policy = simnet.ChunkAll
		}
		if p.MaxRead > 0 && p.MaxRead < 1448 {
			p.MaxRead = 0
		}
	}
	if a.rdBuf < 1427 {
		a.rdBuf = 4096
	}
	if b.rdBuf < 1427 {
		b.rdBuf = 4096
	}
	c.S.MaxSteps *= 4
	c.Feature("one-very-large-write")
}

// drawHangUp: in a third of the runs one side hangs up when it is done while
// the other may still have bytes coming.
// afterFirstByte: hang up only once the peer has read something, i.e. is past
// its own handshake/magic phase (obfs3 deliberately treats data that arrives
// together with a read error during that phase as lost - DESIGN.md 9.7).
func drawHangUp(c *harness.Ctx, cs, ss *streamSide, afterFirstByte bool) {
	k := c.T.Draw("hangup", 6)
	if k < 4 {
		return
	}
	x, y := cs, ss
	if k == 5 {
		x, y = ss, cs
	}
	flag := new(bool)
	x.hungUp, y.peerHungUp = flag, flag
	x.hangUpWhen = func() bool {
		return x.wrDone && y.wrDone && x.gotIn == x.expectIn && (!afterFirstByte || y.gotIn > 0 || y.expectIn == 0)
	}
	c.Info["hangs_up_when_done"] = x.name
}

func (sd *streamSide) maybeHangUp(c *harness.Ctx, conn net.Conn) {
	if sd.hangUpWhen == nil || *sd.hungUp || !sd.hangUpWhen() {
		return
	}
	*sd.hungUp = true
	c.S.Count("fault.peer-hangs-up-with-data-in-flight", 1)
	conn.Close()
}

func (sd *streamSide) complete() bool { return sd.wrDone && sd.gotIn == sd.expectIn }

func init() {
	register(&harness.Prop{ID: "C01", Run: runC01})
}

// bridge seeds whose length table is tiny (found offline with
// sim/cmd/seedsearch; every table is re-derived by the reference before use)
var c01Seeds = append([]struct{ tag, seed string }{
	{"single-22", "00000000000037e100000000000000000000000000000000"},
	{"single-23", "000000000000787c00000000000000000000000000000000"},
	{"single-21", "0000000000043b2300000000000000000000000000000000"},
	{"pair-842-22", "0000000000013e5e00000000000000000000000000000000"},
	{"triple-469-14-22", "0000000000010d0500000000000000000000000000000000"},
}, c09Seeds...)

// directedWrites: write sizes whose last frame ends on, just before or just
// after a value of the table (modulo full frames), and a few one-byte writes.
func directedWrites(c *harness.Ctx, label string, T []int) []writePlan {
	t := c.T
	var out []writePlan
	for i, n := 0, 1+t.Draw(label+".n", 6); i < n; i++ {
		tg := T[t.Draw(label+".tg", len(T))]
		sz := tg - 21 + t.Draw(label+".d", 5) - 2
		switch t.Draw(label+".k", 4) {
		case 2:
			sz += 1427 * (1 + t.Draw(label+".frames", 2))
		case 3:
			sz = 1
		}
		if sz < 0 {
			sz = 0
		}
		out = append(out, writePlan{Size: sz, PauseMs: []int{0, 0, 1, 30, 1000}[t.Draw(label+".pause", 5)]})
	}
	return out
}

func runC01(c *harness.Ctx) {
	defer maybeWoven(c)()
	t := c.T
	iat := t.Draw("iat", 3)
	bias := t.Draw("bias", 2) == 1
	setBias(bias)
	steerPads(c, obfs4PadRanges...)
	id := genObfs4Identity(c, iat)
	// one run in five uses a bridge seed with a very small length table and
	// write sizes around its values, so that bursts end exactly on a sampled
	// length (no padding frame behind the data), one byte before or after it
	var directedT []int
	if t.Draw("seedkind", 5) == 4 {
		d := c01Seeds[t.Draw("seedidx", len(c01Seeds))]
		id.Seed = d.seed
		directedT = lengthTable(id.Seed)
		c.Info["seed_kind"], c.Info["table"] = d.tag, directedT
		c.Feature("directed-seed-" + d.tag)
	}
	sf, err := obfs4Server(id)
	if err != nil {
		panic(err)
	}
	cf, err := transports.Get("obfs4").ClientFactory("")
	if err != nil {
		panic(err)
	}
	link := c.Net.NewLink("c", "s")
	c.Info["c2s"] = configurePipe(c, link.AB, "c2s")
	c.Info["s2c"] = configurePipe(c, link.BA, "s2c")
	ending := false
	cs := &streamSide{name: "c", dirOut: 0, dirIn: 1, plan: drawWrites(c, "cw", 6), rdBuf: []int{32768, 1, 7, 1427, 4096}[t.Draw("c.rdbuf", 5)], ending: &ending}
	ss := &streamSide{name: "s", dirOut: 1, dirIn: 0, plan: drawWrites(c, "sw", 6), rdBuf: []int{32768, 1, 7, 1427, 4096}[t.Draw("s.rdbuf", 5)], ending: &ending}
	if directedT != nil {
		cs.plan, ss.plan = directedWrites(c, "cw", directedT), directedWrites(c, "sw", directedT)
	}
	if aligned := func() bool {
		for _, v := range directedT {
			if v != 0 && v != 1448 {
				return false
			}
		}
		return directedT != nil
	}(); aligned && iat == 0 && t.Draw("fill", 2) == 1 {
		// Every burst under this table is a whole number of 1448-byte segments.
		// One or two writes of 21406..22810 bytes give bursts of exactly 16
		// segments - 23168 bytes, the most an obfs4 endpoint takes off the network
		// in one read - delivered in one piece after a pause and followed by
		// nothing: the read that takes them is filled to the last byte
		side, pipe := cs, link.AB
		if t.Draw("fill.side", 3) > 0 {
			side, pipe = ss, link.BA
		}
		for i, n := 0, 1+t.Draw("fill.n", 2); i < n; i++ {
			pause := 0
			if i == 0 {
				pause = 1000
			}
			side.plan = append(side.plan, writePlan{Size: 21406 + t.Draw("fill.sz", 1405), PauseMs: pause})
		}
		pipe.Policy, pipe.MaxRead = simnet.ChunkAll, 0
		c.Feature("bursts-of-exactly-16-segments")
	}
	for _, cn := range []*simnet.Conn{link.A, link.B} {
		cn.OnRead = func(p []byte) {
			if len(p) == 23168 {
				c.Feature("network-read-filled-to-the-last-byte")
			}
		}
	}
	if t.Draw("many-small", 8) == 7 {
		// dozens of small writes back to back, delivered to a reader that gets
		// round to them late: many short frames (data and padding) in one read,
		// then silence
		side, pipe := cs, link.AB
		if t.Draw("many-small.side", 2) == 1 {
			side, pipe = ss, link.BA
		}
		side.plan = nil
		for i, n := 0, 20+t.Draw("many-small.n", 60); i < n; i++ {
			side.plan = append(side.plan, writePlan{Size: 1 + t.Draw("many-small.sz", 40)})
		}
		pipe.Policy, pipe.Lazy, pipe.MaxRead = simnet.ChunkAll, true, 0
		c.Feature("many-small-writes-coalesced")
	}
	maybeHuge(c, link, cs, ss)
	if len(cs.plan) > 0 && t.Draw("late-seed", 5) == 4 {
		// the bridge's inline seed frame (the last 45 bytes of its first write) is
		// held up for a few milliseconds and the client's first write starts just
		// then: the distributions are re-seeded under a running Write
		holdMs := 1 + t.Draw("late-seed.ms", 40)
		hold := msec(holdMs)
		cs.plan[0].PauseMs = holdMs
		link.BA.Filter = func(off int64, p []byte) []byte {
			if off == 0 && len(p) > 45 {
				link.BA.AddFaultLocked(simnet.Fault{Kind: simnet.FaultStall, Offset: int64(len(p) - 45), Dur: hold})
			}
			return p
		}
		c.Feature("seed-frame-arrives-late")
	}
	cs.expectIn, ss.expectIn = planTotal(ss.plan), planTotal(cs.plan)
	drawHangUp(c, cs, ss, false)
	cs.rdDeadlineMs = []int{0, 0, 0, 1, 20, 300}[t.Draw("c.rddl", 6)]
	ss.rdDeadlineMs = []int{0, 0, 0, 1, 20, 300}[t.Draw("s.rddl", 6)]
	c.Info["client_read_deadline_ms"], c.Info["server_read_deadline_ms"] = cs.rdDeadlineMs, ss.rdDeadlineMs
	c.Info["iat"], c.Info["bias"] = iat, bias
	c.Info["client_writes"], c.Info["server_writes"] = cs.plan, ss.plan
	c.Info["client_rdbuf"], c.Info["server_rdbuf"] = cs.rdBuf, ss.rdBuf
	c.Info["drbg_seed"] = id.Seed

	var cUp, sUp bool
	c.S.Go("s/accept", func() {
		conn, err := sf.WrapConn(link.B)
		if err != nil {
			if !ending {
				c.Violate("C01/handshake-failed", "server WrapConn: %v", err)
			}
			return
		}
		sUp = true
		ss.start(c, conn, "C01")
	})
	c.S.Go("c/dial", func() {
		args, err := cf.ParseArgs(sf.Args())
		if err != nil {
			c.Violate("C01/handshake-failed", "client ParseArgs: %v", err)
			return
		}
		conn, err := cf.Dial("tcp", "10.0.0.2:443", dialTo(link.A), args)
		if err != nil {
			if !ending {
				c.Violate("C01/handshake-failed", "client Dial: %v", err)
			}
			return
		}
		cUp = true
		cs.start(c, conn, "C01")
	})
	// In one run of four the bridge serves a second connection at the same time
	// (same factories, its own link, its own position-coded content): whatever
	// the two connections share inside the process must not let bytes of one
	// show up, or go missing, in the other.
	var cs2, ss2 *streamSide
	var link2 *linkT
	c2Up, s2Up := true, true
	if t.Draw("companion", 4) == 3 {
		c2Up, s2Up = false, false
		link2 = c.Net.NewLink("c2", "s2")
		configurePipe(c, link2.AB, "c2s2")
		configurePipe(c, link2.BA, "s2c2")
		cs2 = &streamSide{name: "c2", dirOut: 2, dirIn: 3, plan: drawWrites(c, "cw2", 4), rdBuf: []int{32768, 1427, 4096}[t.Draw("c2.rdbuf", 3)], ending: &ending}
		ss2 = &streamSide{name: "s2", dirOut: 3, dirIn: 2, plan: drawWrites(c, "sw2", 4), rdBuf: []int{32768, 1427, 4096}[t.Draw("s2.rdbuf", 3)], ending: &ending}
		cs2.expectIn, ss2.expectIn = planTotal(ss2.plan), planTotal(cs2.plan)
		c.Info["companion_client_writes"], c.Info["companion_server_writes"] = cs2.plan, ss2.plan
		c.Feature("second-connection-alongside")
		c.S.Go("s2/accept", func() {
			conn, err := sf.WrapConn(link2.B)
			if err != nil {
				if !ending {
					c.Violate("C01/handshake-failed", "second connection, server WrapConn: %v", err)
				}
				return
			}
			s2Up = true
			ss2.start(c, conn, "C01")
		})
		c.S.Go("c2/dial", func() {
			args, err := cf.ParseArgs(sf.Args())
			if err != nil {
				c.Violate("C01/handshake-failed", "client ParseArgs: %v", err)
				return
			}
			conn, err := cf.Dial("tcp", "10.0.0.2:443", dialTo(link2.A), args)
			if err != nil {
				if !ending {
					c.Violate("C01/handshake-failed", "second connection, client Dial: %v", err)
				}
				return
			}
			c2Up = true
			cs2.start(c, conn, "C01")
		})
	}
	done2 := func() bool { return cs2 == nil || c2Up && s2Up && cs2.complete() && ss2.complete() }
	moved2 := func() int64 {
		if cs2 == nil {
			return 0
		}
		return cs2.gotIn + ss2.gotIn + link2.AB.Written + link2.BA.Written
	}
	// "stalled" is ten virtual minutes in which no byte was written to the wire
	// or delivered to an application - not ten minutes in all: a megabyte in
	// paranoid IAT mode under a table of tiny lengths legitimately trickles for
	// longer than that (4 bytes every 0-10 ms)
	var stop sim.Stop
	for round := 0; round < 60; round++ {
		moved := cs.gotIn + ss.gotIn + link.AB.Written + link.BA.Written + moved2()
		stop = c.S.Run(func() bool { return cUp && sUp && cs.complete() && ss.complete() && done2() }, 10*time.Minute)
		if stop != sim.StopTime || cs.gotIn+ss.gotIn+link.AB.Written+link.BA.Written+moved2() == moved {
			break
		}
		c.Feature("transfer-longer-than-10-virtual-minutes")
	}
	c.Reached = cUp && sUp
	c.Nontrivial = c.S.Counters["net.split"]+c.S.Counters["net.coalesce"] > 0 && cs.expectIn+ss.expectIn > 0
	switch stop {
	case sim.StopTime:
		second := ""
		if cs2 != nil {
			second = fmt.Sprintf("; second connection: handshakes done client=%v server=%v, client read %d of %d, server read %d of %d", c2Up, s2Up, cs2.gotIn, cs2.expectIn, ss2.gotIn, ss2.expectIn)
		}
		c.Violate("C01/stalled-bytes", "10 virtual minutes without traffic and still incomplete: handshakes done client=%v server=%v; client read %d of %d (writer done %v), server read %d of %d (writer done %v); unread on wire c2s in-flight=%d buffered=%d, s2c in-flight=%d buffered=%d; blocked tasks %v%s",
			cUp, sUp, cs.gotIn, cs.expectIn, cs.wrDone, ss.gotIn, ss.expectIn, ss.wrDone,
			link.AB.InFlight(), link.AB.Buffered(), link.BA.InFlight(), link.BA.Buffered(), c.S.LiveTasks(), second)
	case sim.StopCond:
		// let any trailing padding drain and make sure nothing else surfaces
		c.S.Run(func() bool { return false }, time.Minute)
	}
	if link.BA.Lazy {
		c.Feature("s2c-coalesced-with-handshake")
	}
	c.Feature(fmt.Sprintf("iat%d", iat))
	ending = true
}
