package wire

import (
	"encoding/binary"
	"fmt"
	"net"
	"time"

	pt "gitlab.torproject.org/tpo/anti-censorship/pluggable-transports/goptlib"

	"gitlab.com/yawning/obfs4.git/transports"

	"verifsim/harness"
	"verifsim/ref/obfs4ref"
	"verifsim/sim"
)

// c10AuthMalformed: the peer holds the right keys (the handshake succeeds and
// every frame authenticates) but what it seals is not a well-formed packet:
// frames shorter than a packet header, a payload-length field that points
// beyond the frame, PRNG-seed packets of the wrong size or sent to a server,
// unknown types.  The endpoint must neither panic nor spin nor wedge, Read must
// return once the peer has gone, and nothing may be handed to the application
// that the peer did not put into a frame (stale scratch memory).
func c10AuthMalformed(c *harness.Ctx) {
	t := c.T
	realIsClient := t.Draw("role", 2) == 0
	iat := t.Draw("iat", 3)
	id := genObfs4Identity(c, iat)
	rid := refIdentity(id)
	link := c.Net.NewLink("c", "s")
	c.Info["c2s"] = configurePipe(c, link.AB, "c2s")
	c.Info["s2c"] = configurePipe(c, link.BA, "s2c")
	c.Info["transport"] = "obfs4"
	c.Info["real_role"] = map[bool]string{true: "client", false: "server"}[realIsClient]
	ending := false

	// what the reference sends after the handshake
	type item struct {
		kind string
		raw  []byte // the frame's plaintext
		data int    // bytes of position-coded application data it carries
	}
	const filler = 0xA5
	dirIn := 1 // direction index of the data the real endpoint reads
	if !realIsClient {
		dirIn = 0
	}
	var items []item
	var off int64
	legit := func(n, pad int) item {
		b := make([]byte, n)
		patFill(dirIn, off, b)
		off += int64(n)
		return item{kind: fmt.Sprintf("payload(%d,pad %d)", n, pad), raw: obfs4ref.MakePacket(obfs4ref.PacketPayload, b, pad), data: n}
	}
	fill := func(n int) []byte {
		b := make([]byte, n)
		for i := range b {
			b[i] = filler
		}
		return b
	}
	nItems := 1 + t.Draw("items", 6)
	badSeen := ""
	for i := 0; i < nItems; i++ {
		switch t.Draw("item", 10) {
		case 0, 1, 2:
			items = append(items, legit(t.Draw("n", obfs4ref.MaxPacketPayload+1), 0))
		case 3:
			n := t.Draw("n", 600)
			items = append(items, legit(n, t.Draw("pad", obfs4ref.MaxPacketPayload-n+1)))
		case 4:
			// a frame shorter than the 3-byte packet header
			n := t.Draw("short", 3)
			items = append(items, item{kind: fmt.Sprintf("short-frame(%d)", n), raw: fill(n)})
			badSeen = "short-frame"
		case 5:
			// the length field claims more than the frame holds
			have := t.Draw("have", 300)
			claim := have + 1 + t.Draw("over", 3)
			if t.Draw("claimmax", 3) == 2 {
				claim = []int{obfs4ref.MaxPacketPayload, obfs4ref.MaxPacketPayload + 1, 0xffff}[t.Draw("claimv", 3)]
				if claim <= have {
					claim = have + 1
				}
			}
			raw := append([]byte{obfs4ref.PacketPayload, 0, 0}, fill(have)...)
			binary.BigEndian.PutUint16(raw[1:], uint16(claim))
			items = append(items, item{kind: fmt.Sprintf("lying-length(have %d, claims %d)", have, claim), raw: raw})
			badSeen = "lying-length"
		case 6:
			// PRNG seed packets of odd sizes (and, to a server, of any size)
			n := []int{0, 1, 23, 24, 25, 48, 200}[t.Draw("seedlen", 7)]
			b := make([]byte, n)
			c.Rand.Fill("ref.junk", b)
			items = append(items, item{kind: fmt.Sprintf("prng-seed(%d bytes)", n), raw: obfs4ref.MakePacket(obfs4ref.PacketPrngSeed, b, t.Draw("seedpad", 40))})
		case 7:
			n := t.Draw("ulen", obfs4ref.MaxPacketPayload+1)
			items = append(items, item{kind: fmt.Sprintf("unknown-type(%d bytes)", n), raw: obfs4ref.MakePacket(byte(2+t.Draw("utype", 254)), fill(n), 0)})
		case 8:
			// empty payload packet, and a frame that is all header
			items = append(items, item{kind: "empty-payload", raw: obfs4ref.MakePacket(obfs4ref.PacketPayload, nil, 0)})
		case 9:
			// a PRNG-seed packet whose length field lies
			raw := append([]byte{obfs4ref.PacketPrngSeed, 0, 0}, fill(t.Draw("have", 30))...)
			binary.BigEndian.PutUint16(raw[1:], uint16(24+t.Draw("over", 2000)))
			if int(binary.BigEndian.Uint16(raw[1:])) > len(raw)-3 {
				items = append(items, item{kind: "lying-length-seed", raw: raw})
				badSeen = "lying-length"
			}
		}
	}
	// always finish with legitimate data so that "skipped the odd packet and
	// went on" is visible
	items = append(items, legit(1+t.Draw("tail", obfs4ref.MaxPacketPayload), 0))
	var kinds []string
	for _, it := range items {
		kinds = append(kinds, it.kind)
	}
	c.Info["ref_sends"] = kinds
	if badSeen != "" {
		c.Feature("authenticated-" + badSeen)
		c.S.Count("fault.authenticated-"+badSeen, 1)
	}

	var realConn net.Conn
	var realUp, refDone, rdDone bool
	var rdErr error
	var got int64
	var lastProgress time.Duration
	reader := func(conn net.Conn) {
		realConn = conn
		realUp = true
		buf := make([]byte, []int{32768, 1, 7, 1427}[t.Draw("rdbuf", 4)])
		exp := int64(0)
		for {
			n, err := conn.Read(buf)
			if ending {
				return
			}
			for i := 0; i < n; i++ {
				switch buf[i] {
				case pat(dirIn, exp):
					exp++
				case filler:
					// content of a malformed packet that the endpoint chose to
					// tolerate: the peer did send it
				default:
					c.Violate("C10/delivered-bytes-never-sent", "Read handed over byte %#x at position %d of its output; the peer's frames carry only the position-coded data (next expected %#x at data offset %d) and filler %#x in malformed packets: the endpoint leaked memory the peer did not send (peer sent %v)",
						buf[i], got+int64(i), pat(dirIn, exp), exp, filler, kinds)
					return
				}
			}
			if n > 0 {
				got += int64(n)
				lastProgress = c.S.Now()
			}
			if err != nil {
				rdErr, rdDone = err, true
				return
			}
		}
	}
	sendAll := func(e *refEnd) {
		for _, it := range items {
			if len(it.raw) > obfs4ref.MaxFramePayload {
				continue
			}
			if _, err := e.conn.Write(e.sess.Enc.Encode(it.raw)); err != nil {
				break
			}
			if t.Draw("gap", 4) == 3 {
				c.S.Sleep(msec(1 + t.Draw("gapms", 2000)))
			}
		}
		c.S.Sleep(time.Second)
		refDone = true
		// the peer leaves: whatever Read is pending must now return
		e.conn.Close()
	}
	drain := func(e *refEnd) {
		tmp := make([]byte, 32768)
		for {
			if _, err := e.conn.Read(tmp); err != nil {
				return
			}
		}
	}
	if realIsClient {
		cf, _ := transports.Get("obfs4").ClientFactory("")
		seed := make([]byte, 24)
		c.Rand.Fill("ref.seed", seed)
		c.S.Go("r/accept", func() {
			hs := refServerHandshake(c, link.B, rid, refServerOpts{PadLen: t.Draw("spad", 2000), Seed: seed})
			if hs.End == nil {
				return
			}
			c.S.Go("r/drain", func() { drain(hs.End) })
			sendAll(hs.End)
		})
		c.S.Go("c/dial", func() {
			args := &pt.Args{}
			args.Add("cert", rid.Cert())
			args.Add("iat-mode", fmt.Sprint(iat))
			pa, err := cf.ParseArgs(args)
			if err != nil {
				panic(err)
			}
			conn, err := cf.Dial("tcp", "10.0.0.2:443", dialTo(link.A), pa)
			if err != nil {
				// frames that arrive with the server handshake are decoded by
				// Dial: it may be the call that reports a malformed one
				if !ending && badSeen == "" {
					c.Violate("C10/clean-handshake-failed", "obfs4 client against the reference server (which sent only well-formed packets: %v): %v", kinds, err)
				}
				realUp, rdDone = true, true
				return
			}
			reader(conn)
		})
	} else {
		sf, err := obfs4Server(id)
		if err != nil {
			panic(err)
		}
		c.S.Go("s/accept", func() {
			conn, err := sf.WrapConn(link.B)
			if err != nil {
				if !ending {
					c.Violate("C10/clean-handshake-failed", "obfs4 server against the reference client: %v", err)
				}
				return
			}
			reader(conn)
		})
		c.S.Go("r/dial", func() {
			hs := refClientHandshake(c, link.A, rid, refClientOpts{PadLen: obfs4ref.ClientMinPad + t.Draw("cpad", 2000)})
			if hs.End == nil {
				return
			}
			c.S.Go("r/drain", func() { drain(hs.End) })
			sendAll(hs.End)
		})
	}
	stop := c.S.Run(func() bool { return realUp && refDone && rdDone }, 10*time.Minute)
	c.Reached = realUp
	c.Nontrivial = realUp && badSeen != ""
	if stop == sim.StopTime && realUp && refDone && !rdDone {
		c.Violate("C10/read-wedged", "the peer sent %v and closed the connection; ten minutes later Read has still not returned (delivered %d bytes, last progress at %v)", kinds, got, lastProgress)
	}
	_ = rdErr
	ending = true
	if realConn != nil {
		realConn.Close()
	}
	link.A.Close()
	link.B.Close()
}

var _ = harness.RunOnce
