package wire

import (
	"fmt"
	"time"

	"gitlab.com/yawning/obfs4.git/transports"

	"verifsim/harness"
	"verifsim/ref/obfs4ref"
	"verifsim/simnet"
)

func init() { register(&harness.Prop{ID: "C03", Run: runC03}) }

type probe struct {
	kind     string
	link     *linkT
	acceptAt time.Duration
	retAt    time.Duration
	returned bool
	retErr   error
	// prober side
	disconnectAfter time.Duration // 0 = never
	maxBlocked      time.Duration
	sent            int64
	valid           bool // the probe is a genuine handshake (control)
	accepted        bool
	// extended probes: length of the genuine handshake at the head of what was
	// sent, and how much the server had read in total after each of its reads
	validLen int
	rdCum    []int
}

var c03Lens = []int{0, 1, 31, 32, 33, 63, 64, 65, 95, 96, 97, 140, 141, 142, 1448, 8191, 8192, 8193, 9000}

// probeWrite sends b, measuring how long the write was blocked.
func (p *probe) write(c *harness.Ctx, b []byte) bool {
	t0 := time.Now()
	n, err := p.link.A.Write(b)
	if d := time.Since(t0); d > p.maxBlocked {
		p.maxBlocked = d
	}
	p.sent += int64(n)
	return err == nil
}

func runC03(c *harness.Ctx) {
	t := c.T
	setBias(false)
	id := genObfs4Identity(c, t.Draw("iat", 3))
	rid := refIdentity(id)
	sf, err := obfs4Server(id)
	if err != nil {
		panic(err)
	}
	sf2 := sf
	reload := t.Draw("reload", 3) == 2
	if reload {
		// a second factory started from the same persisted identity
		if sf2, err = obfs4Server(id); err != nil {
			panic(err)
		}
	}
	startOff := []time.Duration{0, 17 * time.Minute, 59*time.Minute + 50*time.Second}[t.Draw("t0", 3)]
	nProbes := 1 + t.Draw("nprobes", 4)
	concurrent := t.Draw("concurrent", 2) == 1
	ending := false
	var probes []*probe
	var acceptedBlob []byte // a request the server accepted earlier in this run (for replays)

	kinds := []string{"silent", "random", "truncated", "extended", "bitflip", "wrong-hour", "wrong-key", "wrong-nodeid", "low-order", "replay", "short-pad", "drip-then-garbage", "reflect-bridge-reply"}
	mk := func(i int) *probe {
		name := fmt.Sprintf("p%d", i)
		l := c.Net.NewLink(name, fmt.Sprintf("s%d", i))
		p := &probe{link: l}
		l.B.OnRead = func(b []byte) {
			cum := len(b)
			if k := len(p.rdCum); k > 0 {
				cum += p.rdCum[k-1]
			}
			p.rdCum = append(p.rdCum, cum)
		}
		configurePipe(c, l.AB, name+".c2s")
		l.AB.Lazy = false
		k := t.Draw(name+".kind", len(kinds))
		p.kind = kinds[k]
		if p.kind == "replay" && acceptedBlob == nil && concurrent {
			p.kind = "random"
		}
		c.Feature("probe-" + p.kind)
		c.S.Count("fault.probe-"+p.kind, 1)
		if t.Draw(name+".disc", 4) == 3 {
			p.disconnectAfter = time.Duration(1+t.Draw(name+".discs", 100)) * time.Second
		}
		flood := t.Draw(name+".flood", 4) == 3
		factory := sf
		if reload && i%2 == 1 && p.kind != "replay" {
			// (a replay only counts against the running bridge that saw the original)
			factory = sf2
		}
		pad := edgeRange(c, name+".pad", obfs4ref.ClientMinPad, obfs4ref.ClientMaxPad)
		arg1, arg2, arg3 := t.Draw(name+".a1", 1<<16), t.Draw(name+".a2", 8), t.Draw(name+".a3", 1000)
		pauseMid := []time.Duration{0, 0, time.Second, 29 * time.Second, 31 * time.Second}[t.Draw(name+".pause", 5)]
		// what becomes of the original of a replay: answered and read as usual, or
		// its answer gets stuck in a send buffer nobody empties, or the original
		// client is gone before the answer can be written
		origHow := []string{"answered", "answered", "answer-stalled", "gone-before-answer"}[t.Draw(name+".orig", 4)]

		c.S.Go(fmt.Sprintf("s%d/accept", i), func() {
			c.S.Sleep(startOff)
			p.acceptAt = c.S.Now()
			conn, err := factory.WrapConn(l.B)
			p.retAt, p.returned, p.retErr = c.S.Now(), true, err
			if err == nil {
				p.accepted = true
				conn.Close()
			}
		})
		c.S.Go(name+"/probe", func() {
			c.S.Sleep(startOff)
			if p.disconnectAfter > 0 {
				c.S.Go(name+"/hangup", func() {
					c.S.Sleep(p.disconnectAfter)
					l.A.Close()
				})
			}
			eph := obfs4ref.NewKeypair(refEntropy{c, "ref.eph." + name})
			padB := make([]byte, pad)
			c.Rand.Fill("ref.pad."+name, padB)
			valid := obfs4ref.ClientRequest(rid, eph, padB, nowHour())
			var msg []byte
			switch p.kind {
			case "silent":
			case "random":
				n := c03Lens[arg1%len(c03Lens)]
				if arg2 >= 6 {
					n = arg1 % 9000
				}
				msg = make([]byte, n)
				c.Rand.Fill("ref.junk."+name, msg)
			case "truncated":
				msg = valid[:arg1%len(valid)]
			case "extended":
				extra := make([]byte, 1+arg1%64)
				c.Rand.Fill("ref.junk."+name, extra)
				p.validLen = len(valid)
				msg = append(valid, extra...)
			case "bitflip":
				msg = valid
				var at int
				switch arg2 % 4 {
				case 0:
					at = arg3 * 32 / 1000
				case 1:
					at = 32 + arg3*pad/1000
				case 2:
					at = 32 + pad + arg3*16/1000
				default:
					at = 32 + pad + 16 + arg3*16/1000
				}
				msg[at] ^= 1 << uint(arg1%8)
			case "wrong-hour":
				// offsets that stay outside the window even if the probe's own
				// pauses carry it across the next hour boundary
				off := []int64{-3, -2, 3, 4}[arg2%4]
				msg = obfs4ref.ClientRequest(rid, eph, padB, nowHour()+off)
				if startOff == 59*time.Minute+50*time.Second && arg3%2 == 1 {
					// accepted ten seconds before the hour turns, stamped with the
					// previous hour - still acceptable at that moment - and sent
					// only once the hour has turned: by the time the bridge can
					// look at it, it is two hours old
					msg = obfs4ref.ClientRequest(rid, eph, padB, nowHour()-1)
					c.S.Sleep(15 * time.Second)
					c.Feature("probe-stale-by-the-time-it-is-sent")
				}
			case "wrong-key":
				w := rid
				var priv [32]byte
				c.Rand.Fill("cfg.otherkey", priv[:])
				w.Pub = obfs4ref.NewIdentity(w.NodeID, priv).Pub
				msg = obfs4ref.ClientRequest(w, eph, padB, nowHour())
			case "wrong-nodeid":
				w := rid
				w.NodeID[arg1%20] ^= 1 << uint(arg2)
				msg = obfs4ref.ClientRequest(w, eph, padB, nowHour())
			case "low-order":
				if len(lowOrderReps) > 0 {
					eph.Rep = lowOrderReps[arg1%len(lowOrderReps)]
					eph.Pub = obfs4ref.RepToPublic(eph.Rep)
				}
				msg = obfs4ref.ClientRequest(rid, eph, padB, nowHour())
			case "replay":
				if acceptedBlob == nil {
					// first get a handshake accepted on a side link, then replay it here
					sl := c.Net.NewLink(name+"x", fmt.Sprintf("s%dx", i))
					okc := make(chan bool, 1)
					seen := 0 // bytes of the original the server has taken off the wire
					sl.B.OnRead = func(b []byte) { seen += len(b) }
					if origHow == "answer-stalled" {
						sl.BA.SndBuf = 100
					}
					c.S.Go(fmt.Sprintf("s%dx/accept", i), func() {
						conn, err := factory.WrapConn(sl.B)
						if err == nil {
							conn.Close()
						}
						okc <- err == nil
					})
					sl.A.Write(valid)
					switch origHow {
					case "answered":
						if !<-okc {
							c.Violate("C03/control-rejected", "a conforming handshake was rejected (needed as the original of a replay)")
							return
						}
						sl.A.Close()
					default:
						if origHow == "gone-before-answer" {
							sl.A.Close()
						}
						// the server has the whole original; give it a virtual second to
						// act on it (its answer is stuck, or fails)
						for k := 0; k < 100 && seen < len(valid); k++ {
							c.S.Sleep(100 * time.Millisecond)
						}
						c.S.Sleep(time.Second)
						if seen < len(valid) {
							return
						}
						c.Feature("replay-of-original-" + origHow)
					}
					acceptedBlob = valid
				}
				msg = acceptedBlob
			case "reflect-bridge-reply":
				// OBSERVATION, not judged (DESIGN.md 9.7): the bridge's own reply
				// Y|AUTH|P_S|M_S|MAC_S has the layout and the keying of a client
				// handshake with X := Y and padding AUTH|P_S.  Somebody who has
				// seen one genuine connection can send that reply back to the
				// bridge within the hour window; by the letter of the property it
				// *is* a client handshake valid for this identity and hour that
				// was never presented before.
				sl := c.Net.NewLink(name+"x", fmt.Sprintf("s%dx", i))
				var reply []byte
				sl.B.OnWrite = func(b []byte) {
					if reply == nil {
						reply = append([]byte(nil), b...)
					}
				}
				okc := make(chan bool, 1)
				c.S.Go(fmt.Sprintf("s%dx/accept", i), func() {
					conn, err := factory.WrapConn(sl.B)
					if err == nil {
						conn.Close()
					}
					okc <- err == nil
				})
				sl.A.Write(valid)
				if !<-okc {
					return
				}
				sl.A.Close()
				if len(reply) < 45+96+45 {
					msg = nil // too little padding for a client handshake: nothing sent
				} else {
					msg = reply[:len(reply)-45] // without the inline seed frame
				}
			case "short-pad":
				short := make([]byte, arg1%obfs4ref.ClientMinPad)
				msg = obfs4ref.ClientRequest(rid, eph, short, nowHour())
			case "drip-then-garbage":
				msg = make([]byte, 200+arg1%400)
				c.Rand.Fill("ref.junk."+name, msg)
			}
			// send in one or two pieces with an optional pause in between
			if len(msg) > 0 {
				cut := len(msg)
				if pauseMid > 0 || arg2%2 == 1 {
					cut = arg3 * len(msg) / 1000
				}
				if !p.write(c, msg[:cut]) {
					return
				}
				if cut < len(msg) {
					c.S.Sleep(pauseMid)
					if !p.write(c, msg[cut:]) {
						return
					}
				}
			}
			if flood {
				// keep talking: everything must be swallowed until the close
				l.AB.Policy = simnet.ChunkBurst
				l.AB.MaxRead = 0
				junk := make([]byte, 64<<10)
				c.Rand.Fill("ref.junk."+name, junk)
				for i := 0; i < 20; i++ {
					if !p.write(c, junk) {
						return
					}
					c.S.Sleep(time.Duration(1+arg1%3000) * time.Millisecond)
				}
				c.Feature("flooded-1MiB")
			}
			// then just wait for the server to hang up
			buf := make([]byte, 64)
			for {
				n, err := l.A.Read(buf)
				if n > 0 && !ending && p.kind != "extended" && p.kind != "reflect-bridge-reply" {
					c.Violate("C03/server-talked", "prober (%s) received %d bytes from the server", p.kind, n)
					return
				}
				if err != nil {
					return
				}
			}
		})
		return p
	}

	if concurrent {
		for i := 0; i < nProbes; i++ {
			probes = append(probes, mk(i))
		}
		c.S.Run(func() bool {
			for _, p := range probes {
				if !p.returned {
					return false
				}
			}
			return true
		}, 2*time.Hour)
	} else {
		for i := 0; i < nProbes; i++ {
			p := mk(i)
			probes = append(probes, p)
			c.S.Run(func() bool { return p.returned }, 2*time.Hour)
			startOff = 0
			if c.S.Violated() {
				break
			}
		}
	}
	c.Info["probes"] = func() []string {
		var s []string
		for _, p := range probes {
			s = append(s, p.kind)
		}
		return s
	}()
	c.Info["concurrent"], c.Info["reload"] = concurrent, reload

	// control: a conforming client is answered (non-vacuity)
	{
		l := c.Net.NewLink("ctl", "sctl")
		var ok, done bool
		c.S.Go("sctl/accept", func() {
			conn, err := sf.WrapConn(l.B)
			if err == nil {
				conn.Close()
			}
		})
		c.S.Go("ctl/dial", func() {
			hs := refClientHandshake(c, l.A, rid, refClientOpts{PadLen: obfs4ref.ClientMinPad})
			ok, done = hs.End != nil, true
		})
		c.S.Run(func() bool { return done }, 3*time.Minute)
		if !ok && !c.S.Violated() {
			c.Violate("C03/control-rejected", "a conforming reference client was not answered by the bridge")
		}
	}

	// oracle over what the server side of each probe link did
	var delay time.Duration = -1
	for i, p := range probes {
		b := p.link.B
		if p.kind == "reflect-bridge-reply" {
			if p.accepted || len(b.Writes) != 0 {
				c.Feature("observation-reflected-bridge-reply-answered")
			} else {
				c.Feature("observation-reflected-bridge-reply-ignored")
			}
			continue
		}
		if p.kind == "extended" && (p.accepted || len(b.Writes) != 0) {
			// ... which requires that one of its reads ended exactly there: if the
			// read that brought the end of the handshake also brought trailing
			// bytes, what the server saw was never a valid handshake
			exact := false
			for _, cum := range p.rdCum {
				if cum == p.validLen {
					exact = true
				}
			}
			if !exact {
				c.Violate("C03/extended-handshake-answered", "probe %d: a valid handshake of %d bytes followed directly by garbage; the server's reads ended at %v bytes - never exactly at the end of the handshake - so it never held a valid handshake, yet it answered (accepted=%v, %d writes)", i, p.validLen, p.rdCum, p.accepted, len(b.Writes))
				continue
			}
			// (the answer may also fail to go out because the prober has hung up
			// meanwhile: WrapConn then fails although the handshake was accepted)
			// the peer did present a valid handshake; if the server happened to
			// read exactly that much before the trailing bytes arrived it is
			// right to answer (the garbage then kills the session, C05)
			c.Feature("extended-accepted-at-exact-boundary")
			continue
		}
		if len(b.Writes) != 0 {
			total := 0
			for _, w := range b.Writes {
				total += w.N
			}
			c.Violate("C03/server-wrote", "probe %d (%s): the server wrote %d bytes in %d writes to a peer that never presented a valid handshake", i, p.kind, total, len(b.Writes))
			continue
		}
		if p.accepted {
			c.Violate("C03/probe-accepted", "probe %d (%s) was accepted as a valid handshake", i, p.kind)
			continue
		}
		if !p.returned {
			c.Violate("C03/never-closed", "probe %d (%s): WrapConn has not returned after two virtual hours", i, p.kind)
			continue
		}
		if !b.Closed() {
			c.Violate("C03/not-closed", "probe %d (%s): WrapConn returned (%v) but left the connection open", i, p.kind, p.retErr)
			continue
		}
		held := b.ClosedAt - p.acceptAt
		if p.disconnectAfter > 0 && p.disconnectAfter < held+time.Second {
			// the prober hung up first: the server must notice and return promptly
			if held > p.disconnectAfter+time.Second {
				c.Violate("C03/slow-after-disconnect", "probe %d (%s): peer disconnected after %v, server closed only after %v", i, p.kind, p.disconnectAfter, held)
			}
			c.Feature("early-disconnect")
			continue
		}
		if held < 30*time.Second || held >= 90*time.Second {
			c.Violate("C03/close-time-out-of-range", "probe %d (%s): connection closed %v after accept (must be within 30..90 s)", i, p.kind, held)
			continue
		}
		if delay < 0 {
			delay = held
		} else if d := held - delay; d > time.Millisecond || d < -time.Millisecond {
			c.Violate("C03/close-time-differs", "probe %d (%s) was closed %v after accept, an earlier probe of the same bridge after %v", i, p.kind, held, delay)
			continue
		}
		if p.maxBlocked > time.Second {
			c.Violate("C03/stopped-reading", "probe %d (%s): a prober write was blocked for %v before the close time (server stopped draining)", i, p.kind, p.maxBlocked)
		}
		c.Feature("closed-at-fixed-time")
	}
	if delay >= 0 {
		c.Info["close_delay_s"] = delay.Seconds()
		c.Feature(fmt.Sprintf("delay-bucket-%d", int(delay.Seconds())/10*10))
	}
	c.Reached = true
	c.Nontrivial = c.S.Counters["net.split"]+c.S.Counters["net.coalesce"] > 0 || nProbes > 1
	ending = true
	_ = transports.Get
	_ = simnet.ChunkAll
}
