package wire

import (
	"encoding/base32"
	"fmt"
	"time"

	pt "gitlab.torproject.org/tpo/anti-censorship/pluggable-transports/goptlib"

	"gitlab.com/yawning/obfs4.git/transports/base"

	"verifsim/harness"
	"verifsim/ref/obfsref"
	"verifsim/sim"
)

// c10SSAuthMalformed: a ScrambleSuit server that holds the shared secret (the
// handshake succeeds, every packet authenticates) but seals packets that do
// not follow the format: payload length beyond the packet, unknown or combined
// flags, ticket and PRNG-seed packets of the wrong size.  The client must not
// panic, spin or wedge, and must not hand the application anything the server
// did not put into a packet.
func c10SSAuthMalformed(c *harness.Ctx, cf base.ClientFactory, server *obfsref.SSServer, secret []byte) {
	t := c.T
	c.Feature("ss-authenticated-malformed")
	link := c.Net.NewLink("c", "r")
	configurePipe(c, link.AB, "c2s")
	configurePipe(c, link.BA, "s2c")
	const filler = 0xA5
	fill := func(n int) []byte {
		b := make([]byte, n)
		for i := range b {
			b[i] = filler
		}
		return b
	}
	type item struct {
		kind string
		mk   func(s *obfsref.SS) []byte
	}
	var items []item
	var off int64
	legit := func(n, pad int) item {
		b := make([]byte, n)
		patFill(1, off, b)
		off += int64(n)
		return item{fmt.Sprintf("payload(%d,pad %d)", n, pad), func(s *obfsref.SS) []byte { return s.Packet(obfsref.SSFlagPayload, b, pad) }}
	}
	bad := ""
	for i, n := 0, 1+t.Draw("items", 6); i < n; i++ {
		switch t.Draw("item", 9) {
		case 0, 1, 2:
			n := 1 + t.Draw("n", obfsref.SSMaxPayload)
			items = append(items, legit(n, t.Draw("pad", obfsref.SSMaxPayload-n+1)))
		case 3:
			// payload length beyond the packet
			have := t.Draw("have", 300)
			claim := have + 1 + t.Draw("over", 3)
			if t.Draw("claimmax", 3) == 2 {
				claim = []int{obfsref.SSMaxPayload, obfsref.SSMaxPayload + 1, 0xffff}[t.Draw("claimv", 3)]
				if claim <= have {
					claim = have + 1
				}
			}
			items = append(items, item{fmt.Sprintf("lying-payload-length(have %d, claims %d)", have, claim), func(s *obfsref.SS) []byte {
				return s.PacketRaw(have, claim, obfsref.SSFlagPayload, fill(have))
			}})
			bad = "lying-length"
		case 4:
			// total length beyond the maximum
			tot := obfsref.SSMaxPayload + 1 + t.Draw("tover", 3)
			if t.Draw("tmax", 2) == 1 {
				tot = 0xffff
			}
			items = append(items, item{fmt.Sprintf("oversize-total(%d)", tot), func(s *obfsref.SS) []byte {
				return s.PacketRaw(tot, 10, obfsref.SSFlagPayload, fill(obfsref.SSMaxPayload))
			}})
			bad = "oversize-total"
		case 5:
			// unknown / combined flags
			fl := []byte{0, 3, 5, 6, 7, 8, 0x80, 0xff}[t.Draw("flags", 8)]
			n := t.Draw("n", 200)
			items = append(items, item{fmt.Sprintf("flags-%#x(%d bytes)", fl, n), func(s *obfsref.SS) []byte {
				return s.PacketRaw(n, n, fl, fill(n))
			}})
			bad = "odd-flags"
		case 6:
			// a ticket packet of the wrong size
			n := []int{0, 1, 111, 112, 143, 145, 300}[t.Draw("tklen", 7)]
			items = append(items, item{fmt.Sprintf("new-ticket(%d bytes)", n), func(s *obfsref.SS) []byte {
				return s.PacketRaw(n, n, obfsref.SSFlagNewTicket, fill(n))
			}})
			bad = "odd-ticket"
		case 7:
			// a PRNG seed packet of the wrong size
			n := []int{0, 1, 16, 24, 31, 33, 64}[t.Draw("sdlen", 7)]
			items = append(items, item{fmt.Sprintf("prng-seed(%d bytes)", n), func(s *obfsref.SS) []byte {
				return s.PacketRaw(n, n, obfsref.SSFlagPrngSeed, fill(n))
			}})
			bad = "odd-seed"
		case 8:
			// a well-formed PRNG seed: the client reseeds its length distribution
			seed := make([]byte, 32)
			c.Rand.Fill("ref.seed", seed)
			items = append(items, item{"prng-seed(32 bytes)", func(s *obfsref.SS) []byte {
				return s.Packet(obfsref.SSFlagPrngSeed, seed, 0)
			}})
		}
	}
	items = append(items, legit(1+t.Draw("tail", obfsref.SSMaxPayload), 0))
	var kinds []string
	for _, it := range items {
		kinds = append(kinds, it.kind)
	}
	c.Info["ref_sends"] = kinds
	if bad != "" {
		c.S.Count("fault.ss-authenticated-"+bad, 1)
	}
	ending := false
	var refDone, up, rdDone bool
	var got int64
	c.S.Go("r/server", func() {
		var buf []byte
		tmp := make([]byte, 4096)
		priv := make([]byte, 192)
		c.Rand.Fill("ref.key", priv)
		key := obfsref.NewUDH(priv, false)
		pad := make([]byte, t.Draw("spad", obfsref.SSMaxPad+1))
		for {
			n, err := link.B.Read(tmp)
			buf = append(buf, tmp[:n]...)
			if r, aerr := server.Accept(buf, nowHour(), key, pad); aerr == nil {
				link.B.Write(r.Reply)
				c.S.Go("r/drain", func() {
					for {
						if _, err := link.B.Read(tmp); err != nil {
							return
						}
					}
				})
				for _, it := range items {
					if _, err := link.B.Write(it.mk(r.Session)); err != nil {
						break
					}
					if t.Draw("gap", 4) == 3 {
						c.S.Sleep(msec(1 + t.Draw("gapms", 2000)))
					}
				}
				c.S.Sleep(time.Second)
				refDone = true
				link.B.Close()
				return
			}
			if err != nil {
				refDone = true
				return
			}
		}
	})
	c.S.Go("c/main", func() {
		args := &pt.Args{}
		args.Add("password", base32.StdEncoding.EncodeToString(secret))
		pa, err := cf.ParseArgs(args)
		if err != nil {
			panic(err)
		}
		conn, err := cf.Dial("tcp", "10.0.0.2:443", dialTo(link.A), pa)
		up = true
		if err != nil {
			// packets that arrive with the reply are decoded by Dial
			if !ending && bad == "" {
				c.Violate("C10/clean-handshake-failed", "scramblesuit client against the reference server (well-formed packets only: %v): %v", kinds, err)
			}
			rdDone = true
			return
		}
		defer conn.Close()
		buf := make([]byte, []int{4096, 1, 7, 1427}[t.Draw("rdbuf", 4)])
		exp := int64(0)
		for {
			n, err := conn.Read(buf)
			if ending {
				return
			}
			for i := 0; i < n; i++ {
				switch buf[i] {
				case pat(1, exp):
					exp++
				case filler:
				default:
					c.Violate("C10/delivered-bytes-never-sent", "scramblesuit Read handed over byte %#x at position %d of its output; the server's packets carry only the position-coded data (next expected %#x at data offset %d) and filler %#x in malformed packets (server sent %v)",
						buf[i], got+int64(i), pat(1, exp), exp, filler, kinds)
					return
				}
			}
			got += int64(n)
			if err != nil {
				rdDone = true
				return
			}
		}
	})
	stop := c.S.Run(func() bool { return up && refDone && rdDone }, 10*time.Minute)
	c.Reached, c.Nontrivial = up, up && bad != ""
	if stop == sim.StopTime && up && refDone && !rdDone {
		c.Violate("C10/read-wedged", "scramblesuit: the server sent %v and closed the connection; ten minutes later Read has still not returned (delivered %d bytes)", kinds, got)
	}
	ending = true
	link.A.Close()
	link.B.Close()
}

var _ = harness.RunOnce
var _ = pt.Args{}
