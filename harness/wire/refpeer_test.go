package wire

import (
	"bytes"
	"fmt"
	"io"
	"net"
	"time"

	"verifsim/harness"
	"verifsim/ref/obfs4ref"
)

// refEntropy is the reference peer's own entropy stream.
type refEntropy struct {
	c    *harness.Ctx
	name string
}

func (r refEntropy) Read(p []byte) (int, error) { r.c.Rand.Fill(r.name, p); return len(p), nil }

func nowHour() int64 { return time.Now().Unix() / 3600 }

func refIdentity(id obfs4Identity) obfs4ref.Identity {
	var nid [20]byte
	var priv [32]byte
	mustHex(nid[:], id.NodeID)
	mustHex(priv[:], id.PrivKey)
	return obfs4ref.NewIdentity(nid, priv)
}

func mustHex(dst []byte, s string) {
	for i := range dst {
		var v byte
		for j := 0; j < 2; j++ {
			ch := s[2*i+j]
			v <<= 4
			switch {
			case ch >= '0' && ch <= '9':
				v |= ch - '0'
			case ch >= 'a' && ch <= 'f':
				v |= ch - 'a' + 10
			default:
				panic("bad hex")
			}
		}
		dst[i] = v
	}
}

// refEnd is an established reference endpoint.
type refEnd struct {
	conn    net.Conn
	sess    *obfs4ref.Session
	packets int
	frames  int
}

type refClientOpts struct {
	PadLen  int
	HourOff int64
	Eph     *obfs4ref.Keypair
	// Mutate, if set, may alter the request before it is sent.
	Mutate func(req []byte) []byte
}

// refClientHandshake runs the reference client's side of the handshake over
// conn.  It returns the raw request, the parsed response, and whatever bytes
// followed the response in the same reads (already fed to the session).
type refClientResult struct {
	Request  []byte
	Resp     *obfs4ref.ServerResponse
	End      *refEnd
	Early    []obfs4ref.Packet // packets that trailed the response
	RawResp  []byte
	ReadErr  error
	ParseErr error
	Hour     int64
}

func refClientHandshake(c *harness.Ctx, conn net.Conn, ident obfs4ref.Identity, o refClientOpts) *refClientResult {
	res := &refClientResult{}
	eph := o.Eph
	if eph == nil {
		eph = obfs4ref.NewKeypair(refEntropy{c, "ref.eph"})
	}
	pad := make([]byte, o.PadLen)
	c.Rand.Fill("ref.pad", pad)
	res.Hour = nowHour() + o.HourOff
	req := obfs4ref.ClientRequest(ident, eph, pad, res.Hour)
	if o.Mutate != nil {
		req = o.Mutate(req)
	}
	res.Request = req
	if _, err := conn.Write(req); err != nil {
		res.ReadErr = err
		return res
	}
	var buf []byte
	tmp := make([]byte, 8192)
	for {
		n, err := conn.Read(tmp)
		buf = append(buf, tmp[:n]...)
		if n > 0 {
			r, perr := obfs4ref.ParseServerResponse(ident, eph, res.Hour, buf)
			if perr == nil {
				res.Resp = r
				res.RawResp = append([]byte(nil), buf[:r.Length]...)
				res.End = &refEnd{conn: conn, sess: obfs4ref.NewSession(r.KeySeed[:], true)}
				pk, ferr := res.End.sess.Feed(buf[r.Length:])
				res.Early = pk
				if ferr != nil {
					res.ParseErr = ferr
				}
				return res
			}
			if perr != obfs4ref.ErrNeedMore {
				res.ParseErr = perr
				res.RawResp = buf
				return res
			}
		}
		if err != nil {
			res.ReadErr = err
			res.RawResp = buf
			return res
		}
	}
}

type refServerOpts struct {
	PadLen    int
	Seed      []byte // 24-byte PRNG seed announced in the inline seed frame
	SplitSeed bool   // write the seed frame with a separate Write
	Eph       *obfs4ref.Keypair
	// SeedFrameMutate, if set, may damage / duplicate the inline seed frame on its way out.
	SeedFrameMutate func(frame []byte) []byte
}

type refServerResult struct {
	RawReq   []byte
	Req      *obfs4ref.ClientRequestInfo
	End      *refEnd
	ReadErr  error
	ParseErr error
}

func refServerHandshake(c *harness.Ctx, conn net.Conn, ident obfs4ref.Identity, o refServerOpts) *refServerResult {
	res := &refServerResult{}
	var buf []byte
	tmp := make([]byte, 8192)
	for {
		n, err := conn.Read(tmp)
		buf = append(buf, tmp[:n]...)
		if n > 0 {
			r, perr := obfs4ref.ParseClientRequest(ident, nowHour(), buf)
			if perr == nil {
				res.Req = r
				break
			}
			if perr != obfs4ref.ErrNeedMore {
				res.ParseErr = perr
				res.RawReq = buf
				return res
			}
		}
		if err != nil {
			res.ReadErr = err
			res.RawReq = buf
			return res
		}
	}
	res.RawReq = buf
	eph := o.Eph
	if eph == nil {
		eph = obfs4ref.NewKeypair(refEntropy{c, "ref.eph"})
	}
	pad := make([]byte, o.PadLen)
	c.Rand.Fill("ref.pad", pad)
	resp, seed, ok := obfs4ref.ServerReply(ident, eph, res.Req, pad)
	if !ok {
		res.ParseErr = obfs4ref.ErrNtor
		return res
	}
	res.End = &refEnd{conn: conn, sess: obfs4ref.NewSession(seed[:], false)}
	sf := res.End.sess.Frame(obfs4ref.PacketPrngSeed, o.Seed, 0)
	if o.SeedFrameMutate != nil {
		sf = o.SeedFrameMutate(sf)
	}
	if o.SplitSeed {
		if _, err := conn.Write(resp); err != nil {
			res.ReadErr = err
			return res
		}
		if _, err := conn.Write(sf); err != nil {
			res.ReadErr = err
		}
		return res
	}
	if _, err := conn.Write(append(resp, sf...)); err != nil {
		res.ReadErr = err
	}
	return res
}

// refStream drives an established reference endpoint: a writer task that
// sends the plan as frames with tape-chosen packetisation (payload split,
// padding, interspersed padding-only / unknown-type packets) and a reader task
// that decodes every frame the real side emits and checks the packet layout
// and the position-coded payload.
type refStream struct {
	name     string
	dirOut   int
	dirIn    int
	plan     []writePlan
	expectIn int64
	gotIn    int64
	wrDone   bool
	ending   *bool
	prop     string
	// preloaded packets (arrived with the handshake)
	early []obfs4ref.Packet
	// onPacket, if set, sees every decoded packet.
	onPacket func(p obfs4ref.Packet)
	// extras: allow the writer to inject padding-only / unknown-type packets
	extras bool
}

func (rs *refStream) handle(c *harness.Ctx, pk obfs4ref.Packet) bool {
	for _, b := range pk.Padding {
		if b != 0 {
			c.Violate(rs.prop+"/nonzero-padding", "%s: packet type %d with %d payload bytes carries non-zero padding", rs.name, pk.Type, len(pk.Payload))
			return false
		}
	}
	if rs.onPacket != nil {
		rs.onPacket(pk)
	}
	if pk.Type != obfs4ref.PacketPayload {
		return true
	}
	if bad := patCheck(rs.dirIn, rs.gotIn, pk.Payload); bad >= 0 {
		c.Violate(rs.prop+"/ref-wrong-bytes", "%s: reference decoded %d payload bytes at offset %d; byte %d is not what the application wrote", rs.name, len(pk.Payload), rs.gotIn, rs.gotIn+int64(bad))
		return false
	}
	rs.gotIn += int64(len(pk.Payload))
	if rs.gotIn > rs.expectIn {
		c.Violate(rs.prop+"/ref-extra-bytes", "%s: reference decoded %d payload bytes, the application wrote only %d", rs.name, rs.gotIn, rs.expectIn)
		return false
	}
	return true
}

func (rs *refStream) start(c *harness.Ctx, e *refEnd) {
	s := c.S
	t := c.T
	s.Go(rs.name+"/writer", func() {
		var off int64
		for _, w := range rs.plan {
			if w.PauseMs > 0 {
				c.S.Sleep(msec(w.PauseMs))
			}
			var out bytes.Buffer
			if w.Count > 1 {
				// many minimal frames back to back: nothing but the frame counter
				// distinguishes them
				buf := make([]byte, w.Size)
				for rep := 0; rep < w.Count; rep++ {
					patFill(rs.dirOut, off, buf)
					out.Write(e.sess.Frame(obfs4ref.PacketPayload, buf, 0))
					off += int64(w.Size)
					if out.Len() > 60000 || rep == w.Count-1 {
						if _, err := e.conn.Write(out.Bytes()); err != nil {
							if !*rs.ending {
								c.Violate(rs.prop+"/ref-write-failed", "%s: wire write failed at frame %d: %v", rs.name, rep+1, err)
							}
							return
						}
						out.Reset()
					}
				}
				continue
			}
			rem := w.Size
			for rem > 0 {
				n := rem
				if n > obfs4ref.MaxPacketPayload {
					n = obfs4ref.MaxPacketPayload
				}
				if t.Draw(rs.name+".split", 3) == 2 {
					n = 1 + t.Draw(rs.name+".splitn", n)
				}
				pad := 0
				if t.Draw(rs.name+".pad", 3) == 2 {
					pad = t.Draw(rs.name+".padn", obfs4ref.MaxPacketPayload-n+1)
				}
				buf := make([]byte, n)
				patFill(rs.dirOut, off, buf)
				out.Write(e.sess.Frame(obfs4ref.PacketPayload, buf, pad))
				off += int64(n)
				rem -= n
				if rs.extras {
					switch t.Draw(rs.name+".extra", 8) {
					case 6:
						out.Write(e.sess.Frame(obfs4ref.PacketPayload, nil, t.Draw(rs.name+".xpad", obfs4ref.MaxPacketPayload+1)))
						c.Feature("ref-sent-padding-only-packet")
					case 7:
						junk := make([]byte, t.Draw(rs.name+".xlen", 200))
						c.Rand.Fill("ref.junk", junk)
						out.Write(e.sess.Frame(byte(2+t.Draw(rs.name+".xtype", 254)), junk, 0))
						c.Feature("ref-sent-unknown-type-packet")
					}
				}
			}
			if w.Size == 0 && rs.extras {
				out.Write(e.sess.Frame(obfs4ref.PacketPayload, nil, t.Draw(rs.name+".xpad", obfs4ref.MaxPacketPayload+1)))
			}
			if out.Len() > 0 {
				if _, err := e.conn.Write(out.Bytes()); err != nil {
					if !*rs.ending {
						c.Violate(rs.prop+"/ref-write-failed", "%s: wire write failed: %v", rs.name, err)
					}
					return
				}
			}
		}
		rs.wrDone = true
	})
	s.Go(rs.name+"/reader", func() {
		for _, pk := range rs.early {
			if !rs.handle(c, pk) {
				return
			}
		}
		tmp := make([]byte, 32768)
		for {
			n, err := e.conn.Read(tmp)
			if *rs.ending {
				return
			}
			if n > 0 {
				pks, ferr := e.sess.Feed(tmp[:n])
				for _, pk := range pks {
					e.packets++
					if !rs.handle(c, pk) {
						return
					}
				}
				if ferr != nil {
					c.Violate(rs.prop+"/ref-cannot-decode", "%s: reference cannot decode what the real endpoint sent after %d payload bytes: %v", rs.name, rs.gotIn, ferr)
					return
				}
			}
			if err != nil {
				if err != io.EOF || !*rs.ending {
					c.Violate(rs.prop+"/ref-read-error", "%s: wire read failed: %v after %d of %d bytes", rs.name, err, rs.gotIn, rs.expectIn)
				}
				return
			}
		}
	})
}

func (rs *refStream) complete() bool { return rs.wrDone && rs.gotIn == rs.expectIn }

var _ = fmt.Sprint
