#!/usr/bin/env python3
"""Runner for the deterministic-simulation checks of Yawning/obfs4.

  verif.py setup                      build framework tools, pre-warm the Go build cache
  verif.py check <ID> --tier quick|thorough
  verif.py replay <file>
  verif.py selftest [<ID> ...]        determinism self-test of the simulator

Exit codes: 0 held / 1 violation (with a VIOLATION line) / 2 build or harness trouble.
"""
import argparse
import tempfile
import hashlib
import json
import os
import shutil
import subprocess
import sys
import time

VERIF = os.path.dirname(os.path.abspath(__file__))
REPO = os.environ.get("VERIF_REPO", "/repo")
BUILD = os.path.join(VERIF, "build")
GO = "go1.26.8"
GOENV = dict(os.environ, GOFLAGS="-mod=mod", GOPROXY="off", GOSUMDB="off", GOTOOLCHAIN="local",
             CGO_ENABLED="0", GODEBUG="asynctimerchan=0")
NPROC = int(os.environ.get("VERIF_NPROC", os.cpu_count() or 4))

# property -> engine, budgets (seconds of wall clock per worker), level
TECH = "deterministic simulation with fault injection: "
PROPS = {
    "C01": dict(engine="wire", engines=["wire", "woven"], quick=40, thorough=600, level="exploration", design="DESIGN.md section 4, C01",
                text="Seeded search over write-size sequences, read sizes, chunkings (1 byte .. whole bursts, handshake+payload coalesced), latencies, IAT modes, table bias, bridge seeds and task interleavings of a real obfs4 client and server; in one run of four a second connection with its own content is served by the same factories at the same time; every Read is compared with a position-coded stream model and completeness is demanded after 10 quiet virtual minutes. Sampling, not proof.",
                note="Trusted: the simulator (sim/), go1.26.8 testing/synctest, the stream model. Real code: all of transports/obfs4 and what it imports. TCP, clock, entropy and goroutine scheduling at conn operations are simulated.",
                technique=TECH + "seeded schedule/chunking search, stream-prefix model oracle, quiescence liveness check"),
    "C02": dict(engine="wire", quick=40, thorough=600, level="exploration", design="DESIGN.md section 4, C02",
                text="Seeded search over nine scenario kinds (genuine control, client with wrong node ID / public key, impostor server forging mark+MAC from the public bridge line with AUTH from another key / random AUTH / low-order Y', on-path single-bit and truncation tampering of every response field, 2-6 concurrent clients on one factory, bridge answers that fail to go out, an on-path party that records the genuine answer, cuts the connection and plays the recording back on whatever connection the client's dialer opens next) under all chunkings; oracle: Dial completes iff the peer holds the identity key and the response is intact, fails by the 60 s virtual deadline otherwise, ephemeral representatives pairwise distinct.",
                note="Trusted: simulator, the independent reference implementation (sim/ref/obfs4ref) used as impostor and for locating response fields. Real code: obfs4 client and server.",
                technique=TECH + "second-party deviation (impostor / on-path tamper) under seeded chunking and scheduling"),
    "C03": dict(engine="wire", quick=40, thorough=600, level="exploration", design="DESIGN.md section 4, C03",
                text="1-4 sequential or concurrent probers per run (silent, random lengths incl. 8191/8192/8193, truncated/extended/bit-flipped/short-padded valid handshakes, hours outside the window (also one that is acceptable when the connection is accepted and stale when the handshake is sent), wrong key / node ID, low-order X', byte-identical replay (also of originals whose answer got stuck or whose client was gone), floods of 1.25 MiB, early disconnects, pauses beyond 30 s) against one real server factory (and a second factory started from the same identity); oracle on the server-side conn: zero bytes written, close exactly at accept+D with 30 s <= D < 90 s and D identical for all probes of the bridge, input drained until then, prompt return on early disconnect; a conforming control client is answered.",
                note="Trusted: simulator, reference implementation (crafts the probes). D is never recomputed from the seed. Real code: obfs4 server.",
                technique=TECH + "adversarial probers on a virtual clock, wire-level oracle on the server-side conn"),
    "C04": dict(engine="wire", engines=["wire", "woven"], quick=40, thorough=600, level="exploration", design="DESIGN.md section 4, C04",
                text="Histories of up to 10 submissions (fresh with hour offset -3..+3, byte-identical replays, 2-4 simultaneous copies) with virtual-time gaps of 0 .. 3 h 10 min and starts within +-2 s of an hour boundary against one real server factory; reference clients verify the reply themselves; model: each blob accepted at most once, fresh blobs accepted iff stamped hour within +-1 of the server hour, reply verifies only under the client's hour, rejected submissions get silence.",
                note="Trusted: simulator, reference implementation, acceptance model. Monotone clock only; the capacity bound is exercised in C11.",
                technique=TECH + "history generation against an executable acceptance model on a virtual clock"),
    "C05": dict(engine="wire", engines=["wire", "woven"], quick=40, thorough=600, level="exploration", design="DESIGN.md section 4, C05",
                text="A reference peer (which knows frame boundaries) sends 3-8 frames of all size classes followed by three full frames; one attacker edit per run (bit flip in length / tag / body, delete, duplicate, swap, replay of an earlier frame, junk insertion, truncation then EOF or silence, a body re-sealed under the all-zero key with the right counter sent at the instant the victim's application closes the connection under a blocked Read) under all chunkings against a real client or server, on the unwoven and on the statement-woven build; oracle: delivered bytes are a prefix of the plaintext that never extends past the damaged frame, and Read reports an error once the damage plus two maximum frames were delivered.",
                note="Trusted: simulator, reference implementation. Real code: obfs4 framing / packet / Read path in both roles.",
                technique=TECH + "on-path stream tampering faults with prefix-model oracle"),
    "C06": dict(engine="wire", quick=40, thorough=600, level="exploration", design="DESIGN.md section 4, C06",
                text="Real client against the independent reference server and reference client against the real server, both bridge-line forms, all IAT modes, padding lengths incl. extremes, hour offsets -1/0/+1, reference-chosen packetisation (split payloads, padding, padding-only and unknown-type packets), all chunkings; the reference must accept and decode everything the real side emits (layout, ranges, zero padding, unpadded seed frame equal to the bridge seed) and the real side must deliver everything the reference sends.",
                note="Residual risk: a misunderstanding shared by the reference (written from the property text and protocol document) and the code. No known-answer vectors exist offline.",
                technique=TECH + "two-party interop against an independent reference implementation under seeded segmentation"),
    "C09": dict(engine="wire", engines=["wire", "woven"], quick=40, thorough=600, level="exploration", design="DESIGN.md section 4, C09",
                text="Real client and server with a wire monitor under every underlying Write; random and directed bridge seeds (tables {0}, {1448}, {4}, {34}, {1428}, {1275,0}), directed application write sizes putting the burst tail at target-23..target+2, all IAT modes and both bias settings; oracle from an independently derived table: burst length obeys the padding rule for some target, IAT writes <= 1448, paranoid writes are non-zero table values (1448 accepted when the table contains 0), client bursts checked against the server's table once it has delivered server payload; every Write terminates, no panic.",
                note="Trusted: simulator, reference DRBG/table derivation. The all-pairs arithmetic of the quantifier is sampled through the API, not enumerated.",
                technique=TECH + "wire-size monitor against an independently derived seeded table"),
    "C13": dict(engine="wire", engines=["wire", "woven"], quick=40, thorough=600, level="exploration", design="DESIGN.md section 4, C13",
                text="obfs3 real<->real, real client<->reference server and reference client<->real server with extreme UniformDH private keys on either side (0, 1, 2, all-ones even/odd), X or p-X from the reference, padding 0..4097 per phase incl. extremes, all write plans, read sizes and chunkings (magic straddling reads, data coalesced behind it); rejection runs: padding of 8195..20000 bytes with or without a magic must fail the first Read with nothing delivered and the conn closed, while exactly 8194 (and just below) must be accepted; oracle: stream-prefix model plus completeness after 10 quiet virtual minutes, reference decrypts everything.",
                note="Trusted: simulator, the independent obfs3/UniformDH reference (sim/ref/obfsref, math/big). Shared-secret agreement for X / p-X is established through two-role interop, not algebraically.",
                technique=TECH + "two-party interop against an independent reference, seeded segmentation, edge-entropy injection"),
    "C14": dict(engine="wire", engines=["wire", "woven"], quick=40, thorough=600, level="exploration", design="DESIGN.md section 4, C14",
                text="obfs2 real<->real and both real/reference role pairings with reference padding 0..8192 incl. extremes and reference seeds incl. all-zero / all-ones, all write plans and chunkings; rejection runs with every single-bit corruption of the magic and PADLEN 8193 .. 2^32-1 (must fail Dial/WrapConn) and PADLEN 8192 (must be accepted); the reference parses the real side's seed/magic/padlen and decrypts its stream byte-exactly.",
                note="Trusted: simulator, the independent obfs2 reference (sim/ref/obfsref).",
                technique=TECH + "two-party interop against an independent reference, seeded segmentation, malformed-handshake injection"),
    "C15": dict(engine="disk", quick=40, thorough=600, level="exploration", design="DESIGN.md section 4, C15",
                text="Histories of up to 6 steps (connect, 7-day jumps, hour jumps, ticket-file deletion, restart = new factory on the same simulated disk) of the real ScrambleSuit client against a reference server: reply padding 0..1308 incl. extremes, the reply split at every byte position from the end of the key to its last byte (mark and MAC favoured), control packets and first data coalesced behind the reply, all chunkings, wrong secret, single-bit tampering of every reply field and of data packets (followed by more traffic, by silence or by the end of the stream), ticket issue; oracle: Dial completes for every split, streams exact and complete after 10 quiet virtual minutes, tampering surfaces as an error with no altered data, every ticket seen by the server at most once, wrong secret / tampered reply fail within 60 s.",
                note="The ScrambleSuit reference server (sim/ref/obfsref/ss.go) follows the published protocol from memory; it is the least independent reference. Tickets live on the simulated disk (os -> simos).",
                technique=TECH + "history generation with response-split enumeration, tampering faults and a ticket-use model on a virtual clock and disk"),
    "C16": dict(engine="wire", engines=["wire", "woven"], quick=40, thorough=600, level="exploration", design="DESIGN.md section 4, C16",
                text="The real meek_lite client (real net/http transport over the simulated network, runtime select order from the seeded seam) against a reference HTTP/1.1 server that records bodies, session ids and overlap and answers 200 with tape-sized slices (empty, small, partial, full 64 KiB; with Content-Length or chunked) of a position-coded downstream stream; application writes of 1 byte .. 3 x 65536 with pauses up to 7 s (so the 100 ms .. 5 s poll back-off runs), Close at a tape-chosen instant; oracle: request bodies in order are exactly the written stream (complete after 20 quiet virtual minutes if not closed), Read delivers exactly the response bodies, bodies <= 65536, one session id, Host = the url argument's host on every request and the front (if given) as dial address, never two requests in flight, never 200 empty polls at one virtual instant, after Close Write fails, Read fails after a bounded drain, at most one more request and none in the following hour.",
                note="net/http's internal goroutines are not named tasks; they meet the simulation only through simnet operations. Fault-free server only (non-200 / dropped connections are exercised in C10).",
                technique=TECH + "reference HTTP server with conservation oracle under seeded scheduling, select order and virtual-time polling"),
    "C10": dict(engine="wire", quick=40, thorough=600, level="exploration", design="DESIGN.md section 4, C10",
                text="Chaos peers against every endpoint: (a) garbage of boundary lengths (0..20000) in pieces with pauses, ended by silence / EOF / close / RST, fed to obfs2, obfs3, obfs4 (both roles each), the ScrambleSuit client and the SOCKS5 front end (also with valid-looking prefixes); (b) real client/server pairs of obfs2/3/4 with one stream mutation (flip, insert, delete, duplicate, truncate+EOF, truncate+silence) or link fault (cut-EOF, cut-RST, write error, stalls of 1 s / 45 s / forever) at an offset in the first 12000 bytes of either direction; (c) ScrambleSuit client against bit flips, cuts, garbage and oversize replies; (d) meek_lite against non-200, mixed status, dropped / garbage / truncated / stalled responses; (e) an idle virtual hour after each successful handshake followed by traffic; (f) floods of 12 MiB at handshake-phase servers and at obfs4 clients whose application does not read, with heap growth measured after GC. Oracle: no panic, every handshake call returns within its deadline bound, deadlines disarmed on success, failed handshakes close the conn, Read returns after the stream ends, heap growth < 4 MiB.",
                note="Inputs are seeded structured mutations of valid exchanges, not coverage-guided (not available in this family). A task that never yields is caught by the per-process wall-clock watchdog and reported as a hang. Heap measurements are black-box (runtime.ReadMemStats inside the run).",
                technique=TECH + "chaos peer: garbage, stream mutation and link faults at seeded offsets on a virtual clock; black-box heap bound under flood"),
    "C11": dict(engine="woven", quick=40, thorough=600, level="exploration", design="DESIGN.md section 4, C11",
                text="Sequential: tape-generated histories of up to 24 (value, time step) operations over 2-6 values with steps 0, 1 ns, ttl/3, ttl-1, ttl, ttl+1, 10 ttl, random and jumps back before the oldest entry, three TTLs, in lockstep with a reference insertion-ordered expiring set. Capacity: 102400+k distinct values then probes of the newest / a middle / the oldest value. Concurrent: 2-4 caller tasks x 1-3 TestAndSet calls on 1-3 values with the filter woven (a preemption point before every statement, simsync mutex); histories stamped with the global event sequence number are checked for linearizability against the sequential model with porcupine, and with identical timestamps exactly one submission per value must be told 'new'.",
                note="Trusted: simulator, weave (statement-level yields, sync -> simsync), porcupine v1.3.0, the reference set model. Partial backward clock steps are not generated (undefined by the statement). Data races inside one statement are out of reach.",
                technique=TECH + "lockstep reference model plus statement-level interleaving search with porcupine linearizability check"),
    "C17": dict(engine="wire", quick=30, thorough=600, level="exploration", design="DESIGN.md section 4, C17",
                text="A step-by-step reference SOCKS5 client (IPv4 / IPv6 incl. v4-mapped / domains of 1..255 arbitrary bytes, any port, argument maps with escaped ';' '=' '\\', 8-bit bytes, repeated keys, every username/password spill point) under all segmentations with pauses inside the 5 s budget, plus 19 malformed variants (bad versions, nmethods 0, no acceptable method, bad auth version, ulen/plen 0, bad escapes, empty key, key without value, trailing ';', unknown atyp, zero-length domain, BIND/UDP, non-zero RSV, pipelined trailing bytes, truncation, silence > 5 s); in half the runs after 1-2 earlier connections (plain, or BIND / UDP / unknown address type / non-zero RSV answered by the front end itself) and/or alongside 1-2 plain connections served at the same time, each judged on its own connection; oracle: exact Target/Args for conforming exchanges, error plus (nothing | the stage's RFC failure reply) for malformed ones, deadline enforced and disarmed.",
                note="Trusted: simulator, the strict pt-spec argument encoder in the harness. IPv6 targets are compared as addresses (net.IP.Equal), domain targets byte for byte.",
                technique=TECH + "reference client under seeded segmentation and malformed-message injection on a virtual clock"),
    "C18": dict(engine="disk", quick=30, thorough=600, level="fault_enumeration", design="DESIGN.md section 4, C18",
                text="For tape-generated start-up histories (plain / iat-mode override / explicit identity) the next start is interrupted at EVERY disk step (kill, EIO, ENOSPC; for write steps with torn sizes 0, 1, len/2, len-1, len and a sampled one), then a plain start must succeed and present the durable identity (or the one the interrupted start was given; exactly the one a start that came up despite the error has announced); the ScrambleSuit ticket store likewise: every disk step of a connection and of the client's own start-up (also eight days later, tickets expired) under kill / EIO / ENOSPC, start-up must never fail and no spent ticket reappear; one run in forty restarts after tickets from 230-269 different bridges; identity compared through Args(), the reference's reading of the advertised cert, client ParseArgs of both bridge-line forms and obfs4_bridgeline.txt.",
                note="Kill model: completed disk steps persist, the step in progress persists a prefix (no loss of completed-but-unsynced writes). Trusted: simulator, simos disk model, the weave import shim (os -> simos in statefile.go and handshake_ticket.go).",
                technique=TECH + "crash/error enumeration over every disk step of generated start-up histories with an identity-persistence model"),
    "C19": dict(engine="relay", quick=30, thorough=600, level="exploration", design="DESIGN.md section 4, C19",
                text="The real copyLoop between two simulated connections whose far ends are scripted producer/consumer tasks (chunk sizes 1..40000, pauses, slow readers, send buffers down to 100 bytes, latencies, all chunkings) ending by half-close, close, reset or not at all; oracle: received bytes are a prefix of what the opposite side produced, a side that ends first while the other is healthy has everything forwarded, both conns closed and copyLoop returned within 10 virtual minutes, what the relay had read before a reset comes out on a healthy silent side (simulated sockets answer to *net.TCPConn assertions; SetLinger(0) makes a close abortive); one part runs copyLoop between a plain conn and a real obfs4 server conn whose real obfs4 client sends bursts of 1 byte .. 100 KiB (16..23 KiB favoured), is answered, and closes: every byte it wrote must come out first. The real termMonitor (built from its fields, runtime select order under the seeded seam) with 0-4 handler tasks, SIGINT at a chosen time, optional SIGTERM, late handlers; oracle: wait(true) returns exactly when no handler is active, including when none ever was.",
                note="Harness files are injected into package main through the build overlay; signal.Notify, stdin/ppid watchers and main()'s flag handling are not run. Trusted: simulator, runtime select seam (inert unless armed).",
                technique=TECH + "scripted far ends with EOF/RST/close faults and seeded scheduling; handler/signal histories against a handler-count model"),
}

ENGINES = {
    # name -> dict(src: dir under harness/, pkg: (virtual) package dir inside the repo module, weave: file specs for /verif/weave)
    "wire": dict(src="wire", pkg="zz_verif/wire"),
    "relay": dict(src="relay", pkg="obfs4proxy", weave=[
        # the only rewrite: serverHandler's ORPort dial (a real socket) goes to the harness
        # ... and its go statements become named tasks when a scenario switches that on
        # (the accept loops spawn the handlers; everywhere else they stay plain go)
        dict(path="obfs4proxy/obfs4proxy.go", calls={"pt.DialOr": "verifDialOr"}, types={"net.TCPConn": "verifsim/simnet.Conn"}, go=True),
        # the termination monitor carries statement-level yields (live only in the
        # scenarios that switch them on): a wake-up lost between a check and a
        # park inside wait() is an interleaving of two statements
        dict(path="obfs4proxy/termmon.go", yields=True, go=True),
    ]),
    "woven": dict(src="woven", include=["wire"], pkg="zz_verif/woven", weave=[
        dict(path="common/replayfilter/replay_filter.go", yields=True, go=True, sync=True),
        dict(path="common/probdist/weighted_dist.go", yields=True, go=True, sync=True),
        dict(path="transports/obfs4/obfs4.go", yields=True, go=True),
        dict(path="transports/obfs4/packet.go", yields=True, go=True),
        dict(path="transports/obfs4/handshake_ntor.go", yields=True, go=True),
        dict(path="transports/meeklite/meek.go", yields=True, go=True, sync=True),
        dict(path="transports/obfs4/framing/framing.go", yields=True, go=True),
        dict(path="transports/obfs3/obfs3.go", yields=True, go=True),
        dict(path="transports/obfs2/obfs2.go", yields=True, go=True),
    ]),
    "disk": dict(src="disk", pkg="zz_verif/disk", weave=[
        dict(path="transports/obfs4/statefile.go", os=True),
        dict(path="transports/scramblesuit/handshake_ticket.go", os=True, yields=True, go=True, sync=True),
        dict(path="transports/scramblesuit/conn.go", yields=True, go=True),
        dict(path="transports/scramblesuit/handshake_uniformdh.go", yields=True, go=True),
    ]),
}


def die(msg, code=2):
    print("HARNESS-ERROR " + msg, flush=True)
    sys.exit(code)


def run(cmd, **kw):
    return subprocess.run(cmd, **kw)


def repo_build_dir():
    # one build dir per repo path so VERIF_REPO scratch copies do not clobber /repo's
    tag = "default" if REPO == "/repo" else hashlib.sha1(REPO.encode()).hexdigest()[:10]
    d = os.path.join(BUILD, tag)
    os.makedirs(d, exist_ok=True)
    return d


def gen_modfile(bd):
    """Copy of the repo's go.mod (go line untouched) plus the harness requirements."""
    src = open(os.path.join(REPO, "go.mod")).read()
    extra = "\nrequire verifsim v0.0.0\nreplace verifsim => %s/sim\n" % VERIF
    extra += "require github.com/anishathalye/porcupine v1.3.0\n"
    mod = os.path.join(bd, "go.mod")
    new = src + extra
    if not os.path.exists(mod) or open(mod).read() != new:
        open(mod, "w").write(new)
    shutil.copyfile(os.path.join(REPO, "go.sum"), os.path.join(bd, "go.sum.repo"))
    # keep an accumulated go.sum (the go command appends harness deps to it)
    sums = set()
    for f in (os.path.join(bd, "go.sum"), os.path.join(bd, "go.sum.repo"), os.path.join(VERIF, "sim", "go.sum.extra")):
        if os.path.exists(f):
            sums.update(l for l in open(f).read().splitlines() if l.strip())
    open(os.path.join(bd, "go.sum"), "w").write("\n".join(sorted(sums)) + "\n")
    return mod


def rt_overlay():
    goroot = subprocess.run([GO, "env", "GOROOT"], env=GOENV, stdout=subprocess.PIPE, text=True).stdout.strip()
    r = run([sys.executable, os.path.join(VERIF, "rtpatch", "patch.py"), goroot, os.path.join(BUILD, "rt")],
            stdout=subprocess.PIPE, text=True)
    if r.returncode != 0:
        die("runtime seam patch failed")
    return json.loads(r.stdout)


def build_weave():
    out = os.path.join(BUILD, "weave")
    src = os.path.join(VERIF, "weave", "main.go")
    if os.path.exists(out) and os.path.getmtime(out) >= os.path.getmtime(src):
        return out
    os.makedirs(BUILD, exist_ok=True)
    r = run([GO, "build", "-o", out, "."], cwd=os.path.join(VERIF, "weave"), env=GOENV, stdout=subprocess.PIPE, stderr=subprocess.STDOUT, text=True)
    if r.returncode != 0:
        print(r.stdout)
        die("cannot build the weave tool")
    return out


def run_weave(bd, engine, specs):
    tool = build_weave()
    outdir = os.path.join(bd, "woven-" + engine)
    os.makedirs(outdir, exist_ok=True)
    specfile = os.path.join(outdir, "spec.json")
    open(specfile, "w").write(json.dumps(specs))
    r = run([tool, "-repo", REPO, "-out", outdir, "-spec", specfile], stdout=subprocess.PIPE, stderr=subprocess.STDOUT, text=True)
    if r.returncode != 0:
        print(r.stdout)
        die("weave failed for engine %s" % engine)
    return json.load(open(os.path.join(outdir, "weave.json")))["replace"]


def gen_overlay(bd, engine):
    e = ENGINES[engine]
    rep = dict(rt_overlay())
    for src in e.get("include", []) + [e["src"]]:
        srcdir = os.path.join(VERIF, "harness", src)
        for f in sorted(os.listdir(srcdir)):
            if f.endswith(".go"):
                rep[os.path.join(REPO, e["pkg"], f)] = os.path.join(srcdir, f)
    if e.get("weave") and not os.environ.get("VERIF_NOWEAVE"):
        rep.update(run_weave(bd, engine, e["weave"]))
    path = os.path.join(bd, "overlay-%s.json" % engine)
    open(path, "w").write(json.dumps({"Replace": rep}, indent=1))
    return path


def build_engine(engine, cover=False):
    bd = repo_build_dir()
    mod = gen_modfile(bd)
    ov = gen_overlay(bd, engine)
    out = os.path.join(bd, engine + (".cover.test" if cover else ".test"))
    e = ENGINES[engine]
    cmd = [GO, "test", "-c", "-o", out, "-vet=off", "-modfile=" + mod, "-overlay=" + ov]
    if cover:
        cmd += ["-cover", "-covermode=set", "-coverpkg=gitlab.com/yawning/obfs4.git/..."]
    cmd += ["./" + e["pkg"] + "/"]
    t0 = time.time()
    r = run(cmd, cwd=REPO, env=GOENV, stdout=subprocess.PIPE, stderr=subprocess.STDOUT, text=True)
    if r.returncode != 0 or not os.path.exists(out):
        print(r.stdout)
        die("build of engine %s failed (exit %d)" % (engine, r.returncode))
    return out, time.time() - t0


def worker_env(prop, seed, tier, **kw):
    env = dict(GOENV)
    env.update(VERIF_PROP=prop, VERIF_SEED=str(seed), VERIF_TIER=tier,
               VERIF_KNOWN=os.path.join(VERIF, "known_findings.json"),
               VERIF_REPLAY_DIR=os.path.join(VERIF, "replays", prop))
    env.update({k: str(v) for k, v in kw.items()})
    eng = env.get("VERIF_ENGINE")
    if eng and ENGINES.get(eng, {}).get("weave"):
        # the site table of the woven build (which file each yield site is in)
        env["VERIF_WEAVE_JSON"] = os.path.join(repo_build_dir(), "woven-" + eng, "weave.json")
    return env


def check(prop, tier, seed):
    if prop not in PROPS:
        die("unknown property " + prop)
    cfg = PROPS[prop]
    t0 = time.time()
    engines = cfg.get("engines") or [cfg["engine"]]
    binaries, build_s = [], 0.0
    for e in engines:
        b, s_ = build_engine(e)
        binaries.append(b)
        build_s += s_
    budget = int(os.environ.get("VERIF_BUDGET_S", cfg[tier]))
    bd = repo_build_dir()
    outdir = os.path.join(bd, "out-%s" % prop)
    shutil.rmtree(outdir, ignore_errors=True)
    os.makedirs(outdir)
    os.makedirs(os.path.join(VERIF, "replays", prop), exist_ok=True)
    procs = []
    nw = NPROC
    for w in range(nw):
        out = os.path.join(outdir, "w%d.json" % w)
        env = worker_env(prop, seed, tier, VERIF_FROM=w, VERIF_STRIDE=nw, VERIF_BUDGET_S=budget, VERIF_OUT=out,
                         VERIF_ENGINE=engines[w % len(engines)])
        binary = binaries[w % len(engines)]
        if "VERIF_MAXRUNS" in os.environ:
            env["VERIF_MAXRUNS"] = os.environ["VERIF_MAXRUNS"]
        log = open(os.path.join(outdir, "w%d.log" % w), "w")
        p = subprocess.Popen([binary, "-test.run", "^TestVerif$", "-test.timeout", "0", "-test.cpu", "1"], cwd=outdir, env=env,
                             stdout=log, stderr=subprocess.STDOUT)
        procs.append((w, p, out, log))
    reports, trouble = [], []
    for w, p, out, log in procs:
        rc = p.wait()
        log.close()
        if os.path.exists(out):
            try:
                reports.append(json.load(open(out)))
            except Exception as ex:  # noqa
                trouble.append("worker %d wrote unreadable report: %s" % (w, ex))
        else:
            tail = open(os.path.join(outdir, "w%d.log" % w)).read()[-3000:]
            trouble.append("worker %d exit %d without report:\n%s" % (w, rc, tail))
    wall = time.time() - t0
    return finish(prop, tier, seed, cfg, reports, trouble, wall, build_s)


def finish(prop, tier, seed, cfg, reports, trouble, wall, build_s):
    agg = dict(runs=0, evals=0, reached=0, nontrivial=0, steps=0, vtime_ns=0, leaks=0)
    counters, features, strategies = {}, {}, {}
    hashes, nth = set(), set()
    samples, violations, known, herrs = [], [], [], []
    by_engine = {}
    for r in reports:
        be = by_engine.setdefault(r.get("engine") or "?", dict(runs=0, scheduler_decisions=0))
        be["runs"] += r.get("runs") or 0
        be["scheduler_decisions"] += r.get("steps") or 0
        for k in ("runs", "evals", "reached", "nontrivial", "steps", "vtime_ns", "leaks"):
            agg[k] += r.get(k) or 0
        for src, dst in ((r.get("counters"), counters), (r.get("features"), features), (r.get("strategies"), strategies)):
            for k, v in (src or {}).items():
                dst[k] = dst.get(k, 0) + v
        hashes.update(r.get("hashes") or [])
        nth.update(r.get("nt_hashes") or [])
        if len(samples) < 3:
            samples.extend((r.get("samples") or [])[:1])
        violations.extend(r.get("violations") or [])
        known.extend(r.get("known") or [])
        herrs.extend(r.get("harness_errors") or [])
    herrs.extend(trouble)
    # de-duplicate known findings by description
    seen, known_u = set(), []
    for k in known:
        if k["what"] not in seen:
            seen.add(k["what"])
            known_u.append(k)
    # fresh-process confirmation of every reported violation
    confirmed = []
    nspin = 0
    for v in violations[:4]:
        if v["class"].startswith("spin/task-never-yields"):
            # replaying a hang costs a full watchdog period: confirm only the first
            nspin += 1
            if nspin > 1:
                continue
        rp = replay_file(v["replay"], quiet=True)
        v["fresh_process_replay"] = rp
        confirmed.append(v)
    faults = {k[len("fault."):]: v for k, v in counters.items() if k.startswith("fault.")}
    ev = dict(
        property_id=prop, tier=tier, seed=seed, level=cfg["level"],
        coverage=dict(
            evaluations=max(agg["evals"], agg["runs"]),
            simulated_runs=agg["runs"],
            distinct_nontrivial=len(nth),
            rule=RULES.get(prop, "one evaluation = one simulated run (one tape); distinct = distinct event-log hashes; non-trivial = reached the property's target phase with a split/coalesce/fault/interleaving landing inside in-flight state"),
            samples=samples[:3],
            distinct_event_logs=len(hashes),
            runs_reached_target_phase=agg["reached"],
            runs_nontrivial=agg["nontrivial"],
            scheduler_decisions=agg["steps"],
            simulated_time_s=agg["vtime_ns"] / 1e9,
            runs_per_hour=int(agg["runs"] / wall * 3600) if wall > 0 else 0,
            seeds_per_hour=int(agg["runs"] / wall * 3600) if wall > 0 else 0,
            faults_fired=faults,
            counters=counters,
            features_hit=features,
            strategies=strategies,
            goroutine_leaks_after_teardown=agg["leaks"],
            workers=len(reports),
            runs_by_engine=by_engine,
            build_s=round(build_s, 1),
            components=COMPONENTS.get(prop, {}),
            known_findings=known_u,
            violations=[{k: v[k] for k in v if k != "detail"} for v in violations],
            exhaustive=False,
        ),
        assumptions=ASSUMPTIONS.get(prop, []) + COMMON_ASSUMPTIONS,
        wall_s=round(wall, 2),
        violations=len(violations),
    )
    evdir = os.environ.get("VERIF_EVIDENCE_DIR", os.path.join(VERIF, "evidence"))
    os.makedirs(evdir, exist_ok=True)
    with open(os.path.join(evdir, prop + ".json"), "w") as f:
        json.dump(ev, f, indent=1, sort_keys=True)
    print("%s tier=%s seed=%d: %d runs (%d reached, %d distinct non-trivial logs), %.0f s simulated, %d decisions, wall %.1fs (build %.1fs)" % (
        prop, tier, seed, agg["runs"], agg["reached"], len(nth), agg["vtime_ns"] / 1e9, agg["steps"], wall, build_s))
    if faults:
        print("  faults fired: " + ", ".join("%s=%d" % kv for kv in sorted(faults.items())))
    if features:
        print("  features hit: " + ", ".join("%s=%d" % kv for kv in sorted(features.items())))
    for k in known_u:
        print("KNOWN-FINDING: property=%s %s" % (prop, k["what"]))
    exh = counters.get("runs_step_budget_exhausted", 0)
    if agg["runs"] and exh > 0.05 * agg["runs"]:
        herrs.append("%d of %d runs exhausted their step budget (inconclusive runs)" % (exh, agg["runs"]))
    if herrs:
        for h in herrs[:5]:
            print("HARNESS-ERROR " + h)
        if not violations:
            return 2
    if violations:
        for v in violations[:4]:
            print("  class=%s" % v["class"])
            # (printable ASCII only: a detail may quote raw wire bytes, and a reader
            # piping this through grep should not be told "binary file matches")
            det = (v.get("detail") or "").replace("\n", "\n  ")[:3000]
            print("  " + "".join(ch if (ch == "\n" or 32 <= ord(ch) < 127) else "\\x%02x" % (ord(ch) & 0xff) for ch in det))
            print("VIOLATION property=%s replay=%s" % (prop, v["replay"]))
        return 1
    if agg["runs"] == 0:
        print("HARNESS-ERROR no runs executed")
        return 2
    return 0


def cover(props, budget):
    """Reach measurement: statement coverage of the repository's packages under
    the (unwoven) engines of the given properties.  Not a check; prints a table
    and writes coverage/<prop>.txt with the blocks never executed."""
    bd = repo_build_dir()
    outdir = os.path.join(VERIF, "coverage")
    os.makedirs(outdir, exist_ok=True)
    merged = {}
    for prop in props:
        cfg = PROPS[prop]
        engine = cfg["engine"]
        if ENGINES[engine].get("weave") and not os.environ.get("VERIF_NOWEAVE"):
            # cmd/cover does not see files substituted through -overlay: put the
            # woven files into a scratch copy of the tree and measure there
            # (block positions then refer to the woven source; the report quotes it)
            rep = run_weave(bd, engine, ENGINES[engine]["weave"])
            scratch = tempfile.mkdtemp(prefix="verif-cover-", dir="/var/tmp")
            try:
                dst = os.path.join(scratch, "repo")
                run(["rsync", "-a", "--exclude", ".git", REPO + "/", dst + "/"], check=True)
                for orig, woven in rep.items():
                    shutil.copyfile(woven, os.path.join(dst, os.path.relpath(orig, REPO)))
                env2 = dict(os.environ, VERIF_REPO=dst, VERIF_NOWEAVE="1")
                run([sys.executable, os.path.abspath(__file__), "cover", prop, "--budget", str(budget)], env=env2)
                sub_bd = os.path.join(BUILD, hashlib.sha1(dst.encode()).hexdigest()[:10])
                shutil.rmtree(sub_bd, ignore_errors=True)
            finally:
                shutil.rmtree(scratch, ignore_errors=True)
            continue
        binary, _ = build_engine(engine, cover=True)
        wd = os.path.join(bd, "cover-%s" % prop)
        shutil.rmtree(wd, ignore_errors=True)
        os.makedirs(wd)
        procs = []
        for w in range(min(NPROC, 8)):
            env = worker_env(prop, 1, "quick", VERIF_FROM=w, VERIF_STRIDE=8, VERIF_BUDGET_S=budget,
                             VERIF_OUT=os.path.join(wd, "w%d.json" % w), VERIF_ENGINE=engine,
                             VERIF_REPLAY_DIR=os.path.join(wd, "replays"))
            os.makedirs(os.path.join(wd, "replays"), exist_ok=True)
            prof = os.path.join(wd, "w%d.cov" % w)
            procs.append((prof, subprocess.Popen([binary, "-test.run", "^TestVerif$", "-test.timeout", "0", "-test.cpu", "1",
                                                  "-test.coverprofile", prof], cwd=wd, env=env,
                                                 stdout=subprocess.DEVNULL, stderr=subprocess.DEVNULL)))
        mine = {}
        for prof, p in procs:
            p.wait()
            if not os.path.exists(prof):
                continue
            for line in open(prof):
                if line.startswith("mode:"):
                    continue
                loc, nstmt, cnt = line.rsplit(" ", 2)
                if "/zz_verif/" in loc or "zz_verif_" in loc:
                    continue
                k = (loc, int(nstmt))
                mine[k] = max(mine.get(k, 0), int(cnt))
                merged[k] = max(merged.get(k, 0), int(cnt))
        shutil.rmtree(wd, ignore_errors=True)
        _cover_report(prop, mine, outdir)
    if len(props) > 1:
        _cover_report("ALL-unwoven-engines", merged, outdir)
    for e in set(PROPS[p]["engine"] for p in props):
        try:
            os.unlink(os.path.join(bd, e + ".cover.test"))
        except OSError:
            pass
    return 0


def _cover_report(name, blocks, outdir):
    per = {}
    for (loc, n), cnt in blocks.items():
        f = loc.split(":")[0].replace("gitlab.com/yawning/obfs4.git/", "")
        a = per.setdefault(f, [0, 0, []])
        a[1] += n
        if cnt:
            a[0] += n
        else:
            a[2].append(loc.split(":")[1])
    lines = []
    for f in sorted(per):
        hit, tot, miss = per[f]
        if hit == 0:
            continue
        lines.append("%-55s %4d/%4d %5.1f%%" % (f, hit, tot, 100.0 * hit / tot))
    with open(os.path.join(outdir, name + ".txt"), "w") as fh:
        fh.write("# statement coverage of repository code under the harness (files with at least one statement reached)\n")
        fh.write("\n".join(lines) + "\n\n# blocks never executed: file:start.col,end.col  first line of the block\n")
        for f in sorted(per):
            hit, tot, miss = per[f]
            if not (hit and miss):
                continue
            try:
                src = open(os.path.join(REPO, f)).read().split("\n")
            except OSError:
                src = []
            for blk in sorted(miss, key=lambda x: int(x.split(".")[0])):
                l1 = int(blk.split(".")[0])
                c1 = int(blk.split(",")[0].split(".")[1])
                text = src[l1 - 1] if 0 < l1 <= len(src) else ""
                if c1 >= len(text.rstrip()) and l1 < len(src):
                    text = src[l1]  # the block opens at the end of the line: quote its first statement
                    l1 += 1
                while text.strip().startswith("verifrt.Y(") and l1 < len(src):
                    text = src[l1]  # skip woven yields
                    l1 += 1
                fh.write("%s:%s  %s\n" % (f, blk, text.strip()))
    print("== coverage %s" % name)
    print("\n".join(lines))


def replay_file(path, quiet=False):
    rf = json.load(open(path))
    prop = rf["property"]
    cfg = PROPS[prop]
    engine = rf.get("engine") or cfg["engine"]
    binary, _ = build_engine(engine)
    bd = repo_build_dir()
    out = os.path.join(bd, "replay-out.json")
    if os.path.exists(out):
        os.remove(out)
    env = worker_env(prop, rf["seed"], rf.get("tier", "quick"), VERIF_REPLAY=os.path.abspath(path), VERIF_OUT=out, VERIF_ENGINE=engine)
    if not quiet:
        env["VERIF_TRACE"] = "1"
    r = run([binary, "-test.run", "^TestVerif$", "-test.timeout", "0", "-test.cpu", "1"], cwd=bd, env=env,
            stdout=subprocess.PIPE, stderr=subprocess.STDOUT, text=True)
    if not os.path.exists(out):
        if quiet:
            return dict(reproduced=False, error=r.stdout[-2000:])
        print(r.stdout)
        die("replay produced no result")
    res = json.load(open(out))
    if quiet:
        return {k: res[k] for k in ("reproduced", "identical_log", "class")}
    for line in res.get("trace") or []:
        print("  " + line)
    print(json.dumps({k: v for k, v in res.items() if k != "trace"}, indent=1))
    if res["reproduced"]:
        print("VIOLATION property=%s replay=%s" % (prop, path))
        return 1
    print("not reproduced on this tree")
    return 0


def selftest(props, seeds=40, reps=3):
    """Determinism: identical (seed, run) must give identical event logs across
    processes and GOMAXPROCS values."""
    total_bad = 0
    for prop in props:
        cfg = PROPS[prop]
        for engine in (cfg.get("engines") or [cfg["engine"]]):
            bad = 0
            binary, _ = build_engine(engine)
            bd = repo_build_dir()
            ref = None
            procs = []
            for i, gmp in enumerate([1, 4, 16] * reps):
                out = os.path.join(bd, "selftest-%s-%s-%d.json" % (prop, engine, i))
                env = worker_env(prop, 7, "quick", VERIF_FROM=0, VERIF_STRIDE=1, VERIF_MAXRUNS=seeds, VERIF_BUDGET_S=600,
                                 VERIF_OUT=out, GOMAXPROCS=gmp, VERIF_KNOWN="/nonexistent", VERIF_MAXVIOL=1000000,
                                 VERIF_SHRINK_TRIES=0, VERIF_REPLAY_DIR=os.path.join(bd, "selftest-replays"), VERIF_ENGINE=engine)
                p = subprocess.Popen([binary, "-test.run", "^TestVerif$", "-test.timeout", "0"], cwd=bd, env=env,
                                     stdout=subprocess.DEVNULL, stderr=subprocess.DEVNULL)
                procs.append((p, out, gmp))
            for p, out, gmp in procs:
                p.wait()
                r = json.load(open(out))
                sig = (r["runs"], tuple(r["hashes"]), r["steps"], r["vtime_ns"])
                if ref is None:
                    ref = sig
                elif sig != ref:
                    bad += 1
                    print("NONDETERMINISM %s/%s: GOMAXPROCS=%d differs (%d vs %d distinct logs, steps %d vs %d)" % (
                        prop, engine, gmp, len(sig[1]), len(ref[1]), sig[2], ref[2]))
                os.remove(out)
            shutil.rmtree(os.path.join(bd, "selftest-replays"), ignore_errors=True)
            print("selftest %s on %s: %d processes x %d runs, %s" % (prop, engine, len(procs), seeds, "IDENTICAL" if bad == 0 else "DIFFER"))
            total_bad += bad
    return 2 if total_bad else 0


COMMON_ASSUMPTIONS = [
    "checks run on go1.26.8 (testing/synctest fake clock); the pinned suite runs on the default go1.23.5; go.mod's 'go 1.20' line is kept so language semantics are equal",
    "seeded sampling, not exhaustive: a clean batch is evidence, not proof",
    "CPU time is not simulated: virtual time advances only when every goroutine is blocked",
]
ASSUMPTIONS = {}
RULES = {
    "C18": "one simulated run draws a history of starts and enumerates, from one snapshot, every fault case of the next start: (disk step or read, fault kind crash/EIO/ENOSPC/EACCES, torn-write class), each followed by further starts and a recovery start; one evaluation = one such fault case (the ticket-store part counts its crash points the same way); distinct non-trivial = distinct (history, interrupted start, step, fault, torn class) identifiers",
}
SIM_COMMON = ["TCP (simnet: chunking, latency, stalls, cuts, resets, write errors, tampering filters)", "clock and timers (testing/synctest bubble)",
              "kernel entropy (simrand, one stream per node keyed by goroutine id)", "goroutine scheduling at connection operations and harness steps (seeded tape)"]
COMPONENTS = {
    "C01": {"real": ["transports/obfs4 client and server through the public factories", "transports/obfs4/framing", "common/ntor", "common/probdist", "common/drbg", "common/csrand", "common/replayfilter", "internal/x25519ell2"],
            "simulated": SIM_COMMON + ["on the woven engine additionally statement-level preemption in obfs4.go, packet.go, handshake_ntor.go, weighted_dist.go, replay_filter.go"], "stub": []},
    "C02": {"real": ["transports/obfs4 client and server", "common/ntor", "internal/x25519ell2"], "simulated": SIM_COMMON, "stub": ["impostor / on-path attacker: reference implementation sim/ref/obfs4ref"]},
    "C03": {"real": ["transports/obfs4 server (WrapConn, closeAfterDelay)", "common/replayfilter"], "simulated": SIM_COMMON, "stub": ["probers and control client: sim/ref/obfs4ref"]},
    "C04": {"real": ["transports/obfs4 server", "common/replayfilter"], "simulated": SIM_COMMON + ["woven engine: statement-level preemption and time-skips (stalled thread)"], "stub": ["clients: sim/ref/obfs4ref"]},
    "C05": {"real": ["transports/obfs4 client or server (framing, packet, Read path, Close)"], "simulated": SIM_COMMON + ["woven engine: statement-level preemption (Close racing Read)"], "stub": ["peer and attacker: sim/ref/obfs4ref"]},
    "C06": {"real": ["transports/obfs4 client or server incl. bridge-line parsing"], "simulated": SIM_COMMON, "stub": ["the other role: independent reference sim/ref/obfs4ref (math/big Elligator 2, own ntor, SipHash OFB, frame and packet codec)"]},
    "C09": {"real": ["transports/obfs4 client and server", "common/probdist", "common/drbg"], "simulated": SIM_COMMON + ["woven engine: statement-level preemption (Reset racing Sample)"], "stub": ["length table oracle: reference DRBG + math/rand Perm/Intn"]},
    "C10": {"real": ["transports/obfs2, obfs3, obfs4 (both roles)", "transports/scramblesuit client", "transports/meeklite client with net/http", "common/socks5"], "simulated": SIM_COMMON + ["runtime select order (seeded seam)"], "stub": ["chaos peers, ScrambleSuit reference server, HTTP server; peers that hold the keys but seal malformed packets (obfs4ref, obfsref)"]},
    "C11": {"real": ["common/replayfilter (woven: yields before every statement, sync -> simsync)"], "simulated": ["caller-supplied timestamps", "statement-level scheduling and mutex hand-off order"], "stub": ["reference set model; porcupine v1.3.0 as linearizability checker"]},
    "C13": {"real": ["transports/obfs3 (both roles)", "common/uniformdh"], "simulated": SIM_COMMON + ["extreme private keys through the entropy seam"], "stub": ["reference obfs3/UniformDH peer sim/ref/obfsref"]},
    "C14": {"real": ["transports/obfs2 (both roles)"], "simulated": SIM_COMMON, "stub": ["reference obfs2 peer sim/ref/obfsref"]},
    "C15": {"real": ["transports/scramblesuit client incl. ticket store (woven: statement-level preemption, sync -> simsync)"], "simulated": SIM_COMMON + ["file system (simos) under the ticket store", "padding draws steered to range limits (harness.SteeredSource)"], "stub": ["ScrambleSuit reference server sim/ref/obfsref/ss.go"]},
    "C16": {"real": ["transports/meeklite client", "net/http client transport"], "simulated": SIM_COMMON + ["runtime select order (seeded seam)", "woven engine: statement-level preemption in meek.go"], "stub": ["HTTP/1.1 server (http.ReadRequest over simnet)"]},
    "C17": {"real": ["common/socks5 (Handshake, Reply, argument parser)"], "simulated": SIM_COMMON, "stub": ["tor's SOCKS5 client and pt-spec argument encoder (harness)"]},
    "C18": {"real": ["transports/obfs4 server factory and state file code", "transports/scramblesuit client factory and ticket store"], "simulated": ["file system (simos: kill, torn write, EIO, ENOSPC at every mutating step; EIO, EACCES at every read)"] + SIM_COMMON, "stub": ["ScrambleSuit reference server; reference cert parser"]},
    "C19": {"real": ["obfs4proxy copyLoop", "obfs4proxy clientHandler and serverHandler", "obfs4proxy newTermMonitor and termMonitor (wait, onHandlerStart, onHandlerFinish)", "common/socks5", "transports/obfs4 client and server (part relay-real-obfs4: the PT side of copyLoop)"], "simulated": SIM_COMMON + ["runtime select order (seeded seam)", "signals: offered on the monitor's channel by the simulation"], "stub": ["far ends, tor's SOCKS client, transports behind the handlers (stub factories; a real obfs4 pair in part relay-real-obfs4), the ORPort (pt.DialOr redirected to the simulation); stdin/ppid watchers, accept loops and main() are not run"]},
}





NOT_APPLICABLE = {
    "C07": "Elligator 2 encode/decode is a pure function of 32-byte inputs: no schedule, clock, I/O, fault or second party for a simulator to control (DESIGN.md section 1).",
    "C08": "ntor client/server computations and the KDF are pure functions of keys and node ID; their system-level consequences are exercised inside C02/C03, the for-all-keys algebraic claim is not a simulation target.",
    "C12": "Seeded distribution tables, the DRBG and the range helpers are pure functions of seed/bounds/entropy; the only schedule-dependent aspect (Reset racing Sample) is folded into C09.",
    "C20": "Log scrubbing is a pure function of an error value or address string; nothing in it depends on scheduling, time, I/O or faults.",
}
ENGINE_KIND = {
    "woven": "B2: listed repository files rewritten at build time by /verif/weave (yield before every statement, go statements as named tasks, sync -> simsync) and substituted through the build overlay; everything else as B1",
    "relay": "B1 with in-package injection: harness test files are overlaid into package main of obfs4proxy so copyLoop and termMonitor run unmodified; runtime select order comes from the seeded seam",
    "disk": "B2: statefile.go and handshake_ticket.go compiled with os -> verifsim/simos (in-memory disk with kill/torn-write/EIO/ENOSPC injection at every step); the ScrambleSuit client files additionally woven (yield before every statement, sync -> simsync), live in a tape-chosen fraction of the runs; everything else as B1",
    "wire": "B1: unmodified repository packages inside a testing/synctest bubble on the simulated network/clock/entropy; park-release scheduler driven by a seeded choice tape",
}


def gen_manifest():
    path = os.path.join(VERIF, "MANIFEST.json")
    m = json.load(open(path))
    m["checks"] = []
    for pid in sorted(PROPS):
        c = PROPS[pid]
        m["checks"].append({
            "property_id": pid,
            "quick_cmd": "python3 verif.py check %s --tier quick" % pid,
            "thorough_cmd": "python3 verif.py check %s --tier thorough" % pid,
            "evidence_file": "evidence/%s.json" % pid,
            "replay_cmd_template": "python3 verif.py replay {path}",
            "engine": c["engine"],
            "level_claimed": {"category": c["level"], "text": c["text"], "design_ref": c["design"]},
            "level_note": c["note"],
            "technique": c["technique"],
        })
    m["engines"] = [{"name": e, "path": "harness/" + ENGINES[e]["src"],
                     "serves_properties": sorted(p for p in PROPS if e in (PROPS[p].get("engines") or [PROPS[p]["engine"]])),
                     "kind_free_text": ENGINE_KIND.get(e, "")} for e in sorted(ENGINES)]
    na = []
    for i in range(1, 21):
        pid = "C%02d" % i
        if pid in PROPS:
            continue
        if pid in NOT_APPLICABLE:
            na.append({"property_id": pid, "reason": NOT_APPLICABLE[pid]})
        else:
            na.append({"property_id": pid, "reason": "applicable, but its check is not built yet in this session (planned: DESIGN.md section 4); not claimed until the check is sound on the unchanged tree"})
    m["not_applicable"] = na
    json.dump(m, open(path, "w"), indent=1)
    print("MANIFEST.json: %d checks, %d not claimed" % (len(m["checks"]), len(na)))
    return 0


def main():
    ap = argparse.ArgumentParser()
    sub = ap.add_subparsers(dest="cmd", required=True)
    c = sub.add_parser("check")
    c.add_argument("prop")
    c.add_argument("--tier", default=os.environ.get("VERIF_TIER", "quick"), choices=["quick", "thorough"])
    r = sub.add_parser("replay")
    r.add_argument("path")
    st = sub.add_parser("selftest")
    st.add_argument("props", nargs="*")
    st.add_argument("--seeds", type=int, default=40)
    sub.add_parser("setup")
    sub.add_parser("manifest")
    cv = sub.add_parser("cover")
    cv.add_argument("props", nargs="*")
    cv.add_argument("--budget", type=int, default=15)
    a = ap.parse_args()
    if a.cmd == "manifest":
        sys.exit(gen_manifest())
    if a.cmd == "check":
        seed = int(os.environ.get("VERIF_SEED", "1"))
        sys.exit(check(a.prop, a.tier, seed))
    if a.cmd == "replay":
        sys.exit(replay_file(a.path))
    if a.cmd == "cover":
        sys.exit(cover(a.props or sorted(PROPS), a.budget))
    if a.cmd == "selftest":
        sys.exit(selftest(a.props or sorted(PROPS), a.seeds))
    if a.cmd == "setup":
        for e in ENGINES:
            _, s = build_engine(e)
            print("built engine %s in %.1fs" % (e, s))
        sys.exit(0)


if __name__ == "__main__":
    main()
