// Package simrand is the entropy seam: one deterministic stream per node,
// keyed by (seed, run, node) and independent of the choice tape, so that
// minimising a tape does not change anybody's keys.
package simrand

import (
	"encoding/binary"
	"hash/fnv"
	"sync"
)

type stream struct{ s [4]uint64 }

func rotl(x uint64, k uint) uint64 { return (x << k) | (x >> (64 - k)) }

func (t *stream) next() uint64 {
	s := &t.s
	r := rotl(s[1]*5, 7) * 9
	x := s[1] << 17
	s[2] ^= s[0]
	s[3] ^= s[1]
	s[1] ^= s[2]
	s[0] ^= s[3]
	s[2] ^= x
	s[3] = rotl(s[3], 45)
	return r
}

func splitmix(x *uint64) uint64 {
	*x += 0x9e3779b97f4a7c15
	z := *x
	z = (z ^ (z >> 30)) * 0xbf58476d1ce4e5b9
	z = (z ^ (z >> 27)) * 0x94d049bb133111eb
	return z ^ (z >> 31)
}

// Reader implements io.Reader over per-node streams.
type Reader struct {
	mu      sync.Mutex
	seed    uint64
	run     uint64
	streams map[string]*stream
	Node    func() string // who is drawing (the scheduler's current node)
	Bytes   int64
	// Next, if non-nil, is consulted first: it may fill p itself (edge
	// patterns for key material) and return true.
	Next func(node string, p []byte) bool
}

func New(seed, run uint64, node func() string) *Reader {
	return &Reader{seed: seed, run: run, streams: map[string]*stream{}, Node: node}
}

func (r *Reader) stream(node string) *stream {
	st := r.streams[node]
	if st == nil {
		h := fnv.New64a()
		h.Write([]byte(node))
		x := r.seed*0x2545f4914f6cdd1d ^ (r.run+1)*0x9e3779b97f4a7c15 ^ h.Sum64()
		st = &stream{}
		for i := range st.s {
			st.s[i] = splitmix(&x)
		}
		r.streams[node] = st
	}
	return st
}

func (r *Reader) Read(p []byte) (int, error) {
	node := "?"
	if r.Node != nil {
		node = r.Node()
	}
	r.mu.Lock()
	defer r.mu.Unlock()
	r.Bytes += int64(len(p))
	if r.Next != nil && r.Next(node, p) {
		return len(p), nil
	}
	st := r.stream(node)
	var b [8]byte
	for i := 0; i < len(p); i += 8 {
		binary.LittleEndian.PutUint64(b[:], st.next())
		copy(p[i:], b[:])
	}
	return len(p), nil
}

// Fill is a convenience for harness code that wants bytes from a named stream.
func (r *Reader) Fill(node string, p []byte) {
	r.mu.Lock()
	defer r.mu.Unlock()
	st := r.stream(node)
	var b [8]byte
	for i := 0; i < len(p); i += 8 {
		binary.LittleEndian.PutUint64(b[:], st.next())
		copy(p[i:], b[:])
	}
}
