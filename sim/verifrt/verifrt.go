// Package verifrt is what woven repository code calls: Y marks a
// statement-level preemption point, Go replaces the go statement.  Outside a
// simulation both fall through (Y is a no-op, Go is go).
package verifrt

import (
	"sync/atomic"

	"verifsim/sim"
)

var cur atomic.Pointer[sim.Sim]

// Activate makes s the simulation woven code reports to.
func Activate(s *sim.Sim) { cur.Store(s) }
func Deactivate()         { cur.Store(nil) }
func Active() *sim.Sim    { return cur.Load() }

func Y(site int) {
	if s := cur.Load(); s != nil {
		s.YieldSite(site)
	}
}

func Go(site int, f func()) {
	if s := cur.Load(); s != nil {
		s.GoChild(site, f)
		return
	}
	go f()
}
