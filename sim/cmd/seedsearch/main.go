// seedsearch finds bridge DRBG seeds whose length table has a chosen shape
// (used once, offline, to obtain the directed seeds hard-coded in the C09
// scenario; the scenario re-derives every table with the reference before
// relying on it).
package main

import (
	"encoding/binary"
	"encoding/hex"
	"fmt"
	"math/rand"
	"os"
	"strconv"
	"sync"

	"verifsim/ref/obfs4ref"
)

func main() {
	n, _ := strconv.Atoi(os.Args[1])
	var mu sync.Mutex
	found := map[string]string{}
	var wg sync.WaitGroup
	for w := 0; w < 16; w++ {
		wg.Add(1)
		go func(w int) {
			defer wg.Done()
			for i := w; i < n; i += 16 {
				seed := make([]byte, 24)
				binary.BigEndian.PutUint64(seed[0:], uint64(i))
				r := rand.New(obfs4ref.NewDrbg(seed))
				t := obfs4ref.Table(seed, 0, 1448, r)
				var tag string
				switch {
				case len(t) == 1 && t[0] == 0:
					tag = "only0"
				case len(t) == 1 && t[0] == 1448:
					tag = "only1448"
				case len(t) == 1 && (t[0] == 22 || t[0] == 21 || t[0] == 23):
					tag = fmt.Sprintf("single-%d", t[0])
				case len(t) <= 3 && (t[0] == 22 || t[len(t)-1] == 22):
					tag = fmt.Sprintf("small-with-22-%d", len(t))
				case len(t) == 1 && t[0] <= 21:
					tag = "single-small"
				case len(t) == 1 && t[0] >= 1427:
					tag = "single-large"
				case len(t) == 2 && (t[0] == 0 || t[1] == 0):
					tag = "pair-with-0"
				case len(t) == 1:
					tag = "single"
				}
				if tag != "" {
					mu.Lock()
					if _, ok := found[tag]; !ok {
						found[tag] = hex.EncodeToString(seed) + fmt.Sprint(" ", t)
						fmt.Println(tag, found[tag])
					}
					mu.Unlock()
				}
			}
		}(w)
	}
	wg.Wait()
}
