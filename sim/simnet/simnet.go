// Package simnet is the simulated TCP: a Link is two independent byte pipes;
// every Read/Write is a preemption point; delivery of in-flight bytes to the
// receiver is a scheduler event whose size is chosen by a per-direction
// chunking policy; faults (stall, cut, reset, write error) are placed at byte
// offsets of the stream; deadlines run on the bubble's virtual clock.
package simnet

import (
	"fmt"
	"io"
	"net"
	"os"
	"strconv"
	"syscall"
	"time"

	"verifsim/sim"
)

// Chunking policies (per direction).
const (
	ChunkBurst    = iota // one written burst per delivery
	ChunkAll             // everything in flight
	ChunkMSS             // at most 1448 bytes
	ChunkTiny            // 1..7 bytes
	ChunkOne             // exactly 1 byte
	ChunkRand            // 1..available
	ChunkBoundary        // next write boundary -1/0/+1
	ChunkMix             // one of the above per delivery
	NumChunk
)

var ChunkNames = [...]string{"burst", "all", "mss", "tiny", "one", "rand", "boundary", "mix"}

// SpinThreshold is the number of consecutive terminal read errors after which
// a caller that keeps reading is reported as spinning.
const SpinThreshold = 1000

// Fault kinds.
const (
	FaultStall    = "stall"     // delivery pauses for Dur when Offset bytes were delivered
	FaultCutEOF   = "cut-eof"   // after Offset bytes the reader sees EOF, the writer EPIPE
	FaultCutRST   = "cut-rst"   // after Offset bytes the reader sees ECONNRESET, the writer EPIPE
	FaultWriteErr = "write-err" // the Write crossing Offset is short and fails; later writes fail
	// transient conditions: one call fails with an error that says Temporary()
	// and Timeout() (as an expired deadline would), the connection stays usable
	FaultWriteTemp = "write-temp-err" // the Write crossing Offset is short and fails once
	FaultReadTemp  = "read-temp-err"  // the first Read after Offset bytes were consumed fails once
)

func transient(kind string) bool {
	return kind == FaultWriteErr || kind == FaultWriteTemp || kind == FaultReadTemp
}

type Fault struct {
	Kind   string
	Offset int64
	Dur    time.Duration
	fired  bool
}

type seg struct {
	data    []byte
	readyAt time.Time
}

type WriteRec struct {
	At time.Duration
	N  int
}

type DeadlineRec struct {
	At   time.Duration
	Kind string // "rw", "r", "w"
	T    time.Time
	// ReadsBefore / WritesBefore: how many Read / Write calls the connection
	// had seen when the deadline was set.
	ReadsBefore  int
	WritesBefore int
}

// Pipe is one direction of a link.
type Pipe struct {
	net      *Net
	name     string
	inflight []seg
	inBytes  int
	readable []byte
	SndBuf   int
	Policy   int
	Lazy     bool          // deliver only when no task is runnable (coalesce everything)
	Latency  time.Duration // added to every written burst
	MaxRead  int           // cap on what one Read returns (0 = none)
	// ErrWithData makes Read return the final bytes together with EOF / the
	// reset error, as io.Reader permits, instead of in a separate call.
	ErrWithData bool

	wrClosed  bool // writer side closed: EOF after drain
	rdClosed  bool // reader side closed: writes fail
	reset     bool // reader sees ECONNRESET (after readable drained)
	eofCut    bool
	wrBroken  error
	stallTill time.Time
	faults    []*Fault

	Written   int64 // bytes accepted from the writer
	Delivered int64 // bytes moved to the readable buffer
	Consumed  int64 // bytes returned by Read

	// Filter, if set, sees every accepted chunk (an on-path attacker); it
	// returns what actually travels.
	Filter func(off int64, p []byte) []byte

	reader *Conn
	writer *Conn
}

type Conn struct {
	net   *Net
	name  string
	node  string
	in    *Pipe
	out   *Pipe
	local net.Addr
	peer  net.Addr

	closed   bool
	rdl, wdl time.Time
	rdTimer  *time.Timer
	wrTimer  *time.Timer
	rdWait   chan struct{}
	wrWait   chan struct{}

	deadReads int
	zeroReads int
	// linger: -1 default (a close lets what was written reach the peer, then
	// the end of the stream); 0 after SetLinger(0): an abortive close - what
	// the peer has not read yet is discarded and it sees a reset
	linger    int
	lingerSet bool

	Writes    []WriteRec
	Deadlines []DeadlineRec
	ClosedAt  time.Duration
	CloseN    int
	ReadCalls int
	// OnRead, if set, is called (kernel lock held) with every chunk a Read returns.
	OnRead func(p []byte)
	// OnWrite, if set, is called (kernel lock held) with every Write's argument.
	OnWrite func(p []byte)
}

type Link struct {
	A, B *Conn // A: dialing side, B: accepting side
	AB   *Pipe // A -> B
	BA   *Pipe // B -> A
}

type Net struct {
	S     *sim.Sim
	links []*Link
	nconn int
}

func New(s *sim.Sim) *Net {
	n := &Net{S: s}
	s.AddSource(n)
	return n
}

type addr struct{ s string }

func (a addr) Network() string { return "tcp" }
func (a addr) String() string  { return a.s }

// NewLink creates a connected pair.  aNode / bNode name the owning nodes.
func (n *Net) NewLink(aNode, bNode string) *Link {
	n.S.Lock()
	defer n.S.Unlock()
	n.nconn++
	id := strconv.Itoa(n.nconn)
	ab := &Pipe{net: n, name: "net/" + id + ":" + aNode + ">" + bNode, SndBuf: 256 << 10}
	ba := &Pipe{net: n, name: "net/" + id + ":" + bNode + ">" + aNode, SndBuf: 256 << 10}
	a := &Conn{net: n, name: aNode + "/conn" + id, node: aNode, in: ba, out: ab,
		local: &net.TCPAddr{IP: net.IPv4(10, 0, 0, 1), Port: 40000 + n.nconn}, peer: &net.TCPAddr{IP: net.IPv4(10, 0, 0, 2), Port: 443}}
	b := &Conn{net: n, name: bNode + "/conn" + id, node: bNode, in: ab, out: ba,
		local: &net.TCPAddr{IP: net.IPv4(10, 0, 0, 2), Port: 443}, peer: &net.TCPAddr{IP: net.IPv4(10, 0, 0, 1), Port: 40000 + n.nconn}}
	ab.writer, ab.reader = a, b
	ba.writer, ba.reader = b, a
	l := &Link{A: a, B: b, AB: ab, BA: ba}
	n.links = append(n.links, l)
	return l
}

func (n *Net) Links() []*Link { return n.links }

// Forget drops a link whose two ends are closed and drained from the net's
// bookkeeping (scenarios with very many short connections would otherwise pay
// for every old link at every scheduling step).
func (n *Net) Forget(l *Link) {
	s := n.S
	s.Lock()
	defer s.Unlock()
	for i, x := range n.links {
		if x == l {
			n.links = append(n.links[:i], n.links[i+1:]...)
			return
		}
	}
}

// CloseAll tears every connection down (end of run).
func (n *Net) CloseAll() {
	for _, l := range n.links {
		l.A.Close()
		l.B.Close()
	}
}

// AddFaultLocked is AddFault for callers that already run under the
// simulation lock (a pipe's Filter).
func (p *Pipe) AddFaultLocked(f Fault) {
	ff := f
	p.faults = append(p.faults, &ff)
}

func (p *Pipe) AddFault(f Fault) {
	p.net.S.Lock()
	ff := f
	p.faults = append(p.faults, &ff)
	// a fault whose offset has already been delivered takes effect now
	p.checkImmediateFaults()
	p.wakeReader()
	p.wakeWriter()
	p.net.S.Unlock()
	p.net.S.Notify()
}

func (p *Pipe) Name() string { return p.name }

// InFlight reports bytes written but not yet readable.
func (p *Pipe) InFlight() int { return p.inBytes }

// Buffered reports bytes readable but not yet read.
func (p *Pipe) Buffered() int { return len(p.readable) }

// ---- scheduler events -------------------------------------------------------

func (n *Net) Events(now time.Time, add func(sim.Event)) {
	for _, l := range n.links {
		for _, p := range []*Pipe{l.AB, l.BA} {
			p := p
			if len(p.inflight) == 0 {
				continue
			}
			ready := p.inflight[0].readyAt
			if p.stallTill.After(ready) {
				ready = p.stallTill
			}
			if p.reset || p.eofCut || p.rdClosed {
				continue
			}
			key := p.name
			if p.Lazy {
				key = "~" + key // sorts last; the scheduler treats '~' keys as idle-only
			}
			add(sim.Event{Key: key, Node: "net", ReadyAt: ready, Fire: func() { p.deliver() }})
		}
	}
}

// sendThreshold is how much room a blocked writer waits for before it puts
// more of its buffer on the wire: the rest of the write or one full segment,
// whichever is less (sender-side silly-window avoidance, as TCP does; without
// it a full send buffer fragments a long stream into ever smaller pieces, one
// per read of the peer).
func (p *Pipe) sendThreshold(remaining int) int {
	need := remaining
	if need > 1448 {
		need = 1448
	}
	if need > p.SndBuf {
		need = p.SndBuf
	}
	if need < 1 {
		need = 1
	}
	return need
}

func (p *Pipe) nextFaultOffset() (int64, *Fault) {
	var best *Fault
	for _, f := range p.faults {
		if f.fired || transient(f.Kind) {
			continue
		}
		if best == nil || f.Offset < best.Offset {
			best = f
		}
	}
	if best == nil {
		return -1, nil
	}
	return best.Offset, best
}

func (p *Pipe) deliver() {
	s := p.net.S
	s.Lock()
	defer s.Unlock()
	if len(p.inflight) == 0 {
		return
	}
	now := time.Now()
	avail := 0
	if !p.inflight[len(p.inflight)-1].readyAt.After(now) {
		// everything in flight is ready (readyAt is monotone): no need to walk
		// a list that a lazy pipe may have let grow to tens of thousands
		avail = p.inBytes
	} else {
		for _, sg := range p.inflight {
			if sg.readyAt.After(now) {
				break
			}
			avail += len(sg.data)
		}
	}
	if avail == 0 {
		return
	}
	head := len(p.inflight[0].data)
	pol := p.Policy
	if p.Lazy {
		pol = ChunkAll
	}
	if pol == ChunkMix {
		pol = s.T.Draw("chunk.mix", NumChunk-1)
	}
	n := avail
	switch pol {
	case ChunkBurst:
		n = head
	case ChunkAll:
		n = avail
	case ChunkMSS:
		if n > 1448 {
			n = 1448
		}
	case ChunkTiny:
		n = 1 + s.T.Draw("chunk.tiny", 7)
	case ChunkOne:
		n = 1
	case ChunkRand:
		n = 1 + s.T.Draw("chunk.rand", avail)
	case ChunkBoundary:
		n = head + s.T.Draw("chunk.bnd", 3) - 1
	}
	if n < 1 {
		n = 1
	}
	if n > avail {
		n = avail
	}
	// never cross a pending fault offset
	off, f := p.nextFaultOffset()
	if f != nil && off >= p.Delivered && p.Delivered+int64(n) > off {
		n = int(off - p.Delivered)
	}
	if n > 0 {
		if n > head {
			s.CountLocked("net.coalesce", 1)
		} else if n < head {
			s.CountLocked("net.split", 1)
		}
		s.CountLocked("net.deliveries", 1)
		p.move(n)
	}
	s.LogLocked("deliver", p.name+" "+strconv.Itoa(n))
	if f != nil && p.Delivered >= f.Offset {
		p.fire(f)
	}
	p.wakeReader()
	p.wakeWriter()
}

func (p *Pipe) move(n int) {
	p.Delivered += int64(n)
	p.inBytes -= n
	for n > 0 {
		sg := &p.inflight[0]
		k := len(sg.data)
		if k > n {
			k = n
		}
		p.readable = append(p.readable, sg.data[:k]...)
		sg.data = sg.data[k:]
		n -= k
		if len(sg.data) == 0 {
			p.inflight = p.inflight[1:]
		}
	}
}

func (p *Pipe) fire(f *Fault) {
	s := p.net.S
	f.fired = true
	s.CountLocked("fault."+f.Kind, 1)
	s.LogLocked("fault", p.name+" "+f.Kind+"@"+strconv.FormatInt(f.Offset, 10))
	switch f.Kind {
	case FaultStall:
		p.stallTill = time.Now().Add(f.Dur)
	case FaultCutEOF:
		p.eofCut = true
		p.dropInflight()
		p.wrBroken = &net.OpError{Op: "write", Net: "tcp", Err: syscall.EPIPE}
	case FaultCutRST:
		p.reset = true
		p.dropInflight()
		p.wrBroken = &net.OpError{Op: "write", Net: "tcp", Err: syscall.EPIPE}
	}
}

func (p *Pipe) dropInflight() {
	p.inflight = nil
	p.inBytes = 0
}

func (p *Pipe) wakeReader() {
	if c := p.reader; c != nil && c.rdWait != nil {
		close(c.rdWait)
		c.rdWait = nil
	}
}

func (p *Pipe) wakeWriter() {
	if c := p.writer; c != nil && c.wrWait != nil {
		close(c.wrWait)
		c.wrWait = nil
	}
}

// checkFaultsAtZero fires faults placed at offset <= Delivered that need no
// delivery to trigger (e.g. cut at offset 0).
func (p *Pipe) checkImmediateFaults() {
	for _, f := range p.faults {
		if !f.fired && !transient(f.Kind) && f.Offset <= p.Delivered {
			p.fire(f)
		}
	}
}

// ---- net.Conn ----------------------------------------------------------------

func timeoutErr(op string) error {
	return &net.OpError{Op: op, Net: "tcp", Err: os.ErrDeadlineExceeded}
}

func closedErr(op string) error {
	return &net.OpError{Op: op, Net: "tcp", Err: net.ErrClosed}
}

func (c *Conn) Name() string { return c.name }
func (c *Conn) In() *Pipe    { return c.in }
func (c *Conn) Out() *Pipe   { return c.out }

func (c *Conn) Read(b []byte) (int, error) {
	s := c.net.S
	for {
		s.Park(c.node, c.name+":r")
		s.Lock()
		c.ReadCalls++
		if len(b) > 0 {
			c.zeroReads = 0
		}
		p := c.in
		p.checkImmediateFaults()
		var n int
		var err error
		done := true
		var tempRead *Fault
		for _, f := range p.faults {
			if f.Kind == FaultReadTemp && !f.fired && p.Consumed >= f.Offset {
				tempRead = f
			}
		}
		switch {
		case c.closed:
			err = closedErr("read")
		case !c.rdl.IsZero() && !time.Now().Before(c.rdl):
			err = timeoutErr("read")
		case tempRead != nil:
			tempRead.fired = true
			s.CountLocked("fault."+tempRead.Kind, 1)
			s.LogLocked("fault", p.name+" "+tempRead.Kind+"@"+strconv.FormatInt(tempRead.Offset, 10))
			err = timeoutErr("read")
		case len(b) == 0:
			// a zero-length read returns at once; a caller that keeps issuing
			// them consumes no input and lets no time pass: a busy loop
			c.zeroReads++
			if c.zeroReads == SpinThreshold {
				s.LogLocked("read", c.name+" zero-length x"+strconv.Itoa(c.zeroReads))
				s.Unlock()
				s.Violate("spin/zero-length-reads", fmt.Sprintf("%s: Read has been called with an empty buffer %d times in a row; the caller consumes no input and lets no time pass (busy loop)", c.name, c.zeroReads))
				return 0, nil
			}
		case len(p.readable) > 0:
			n = len(p.readable)
			if n > len(b) {
				n = len(b)
			}
			if p.MaxRead > 0 && n > p.MaxRead {
				n = p.MaxRead
			}
			copy(b, p.readable[:n])
			p.readable = p.readable[n:]
			if len(p.readable) == 0 {
				p.readable = nil
			}
			p.Consumed += int64(n)
			if c.OnRead != nil {
				c.OnRead(b[:n])
			}
			p.wakeWriter()
			// io.Reader allows the last bytes and the end condition to come out
			// of the same call; transports layered on top of TCP do that
			if p.ErrWithData && len(p.readable) == 0 && !c.closed {
				switch {
				case p.reset:
					err = &net.OpError{Op: "read", Net: "tcp", Err: syscall.ECONNRESET}
				case p.eofCut || (p.wrClosed && len(p.inflight) == 0):
					err = io.EOF
				}
				if err != nil {
					s.CountLocked("net.err-with-data", 1)
				}
			}
		case p.reset:
			err = &net.OpError{Op: "read", Net: "tcp", Err: syscall.ECONNRESET}
		case p.eofCut || (p.wrClosed && len(p.inflight) == 0):
			err = io.EOF
		default:
			done = false
		}
		if done {
			if err != nil && !os.IsTimeout(err) {
				// an endpoint that keeps reading a connection that has already
				// told it, a thousand times, that it is over is spinning: it
				// consumes no input and virtual time does not pass
				c.deadReads++
				if c.deadReads == SpinThreshold {
					s.LogLocked("read", c.name+" err "+errClass(err))
					s.Unlock()
					s.Violate("spin/dead-connection-read-again-and-again", fmt.Sprintf("%s: Read has now returned %q %d times in a row on a connection that is over; the caller keeps calling it without consuming input or letting time pass (busy loop)", c.name, errClass(err), c.deadReads))
					return n, err
				}
			} else if err == nil && n > 0 {
				c.deadReads = 0
			}
			if err != nil && n > 0 {
				s.LogLocked("read", c.name+" "+strconv.Itoa(n)+" with err "+errClass(err))
			} else if err != nil {
				s.LogLocked("read", c.name+" err "+errClass(err))
			} else {
				s.LogLocked("read", c.name+" "+strconv.Itoa(n))
			}
			s.Unlock()
			return n, err
		}
		w := make(chan struct{})
		c.rdWait = w
		s.Unlock()
		<-w
	}
}

func (c *Conn) Write(b []byte) (int, error) {
	s := c.net.S
	total := 0
	first := true
	for {
		s.Park(c.node, c.name+":w")
		s.Lock()
		p := c.out
		if first {
			first = false
			c.Writes = append(c.Writes, WriteRec{At: s.Now(), N: len(b)})
			if c.OnWrite != nil {
				c.OnWrite(b)
			}
		}
		var err error
		done := false
		switch {
		case c.closed:
			err = closedErr("write")
		case p.wrBroken != nil:
			err = p.wrBroken
		case p.rdClosed:
			err = &net.OpError{Op: "write", Net: "tcp", Err: syscall.EPIPE}
		case !c.wdl.IsZero() && !time.Now().Before(c.wdl):
			err = timeoutErr("write")
		case len(b) == total:
			done = true
		default:
			space := p.SndBuf - p.inBytes - len(p.readable)
			if space >= p.sendThreshold(len(b)-total) {
				k := len(b) - total
				if k > space {
					k = space
				}
				// write-error fault inside this chunk?
				for _, f := range p.faults {
					if (f.Kind == FaultWriteErr || f.Kind == FaultWriteTemp) && !f.fired && f.Offset >= p.Written && f.Offset < p.Written+int64(k) {
						k = int(f.Offset - p.Written)
						f.fired = true
						s.CountLocked("fault."+f.Kind, 1)
						s.LogLocked("fault", p.name+" "+f.Kind+"@"+strconv.FormatInt(f.Offset, 10))
						if f.Kind == FaultWriteTemp {
							err = timeoutErr("write")
						} else {
							p.wrBroken = &net.OpError{Op: "write", Net: "tcp", Err: syscall.EIO}
							err = p.wrBroken
						}
						break
					}
				}
				if k > 0 {
					chunk := append([]byte(nil), b[total:total+k]...)
					off := p.Written
					p.Written += int64(k)
					total += k
					if p.Filter != nil {
						chunk = p.Filter(off, chunk)
					}
					if len(chunk) > 0 {
						p.inflight = append(p.inflight, seg{data: chunk, readyAt: time.Now().Add(p.Latency)})
						p.inBytes += len(chunk)
					}
				}
				if err == nil && total == len(b) {
					done = true
				}
			}
		}
		if err != nil {
			s.LogLocked("write", c.name+" "+strconv.Itoa(total)+" err "+errClass(err))
			s.Unlock()
			return total, err
		}
		if done {
			s.LogLocked("write", c.name+" "+strconv.Itoa(total))
			s.Unlock()
			s.Notify()
			return total, nil
		}
		if total < len(b) {
			space := p.SndBuf - p.inBytes - len(p.readable)
			if space >= p.sendThreshold(len(b)-total) {
				s.Unlock()
				continue
			}
		}
		w := make(chan struct{})
		c.wrWait = w
		s.Unlock()
		<-w
	}
}

func (c *Conn) Close() error {
	s := c.net.S
	s.Lock()
	defer s.Unlock()
	c.CloseN++
	if c.closed {
		return closedErr("close")
	}
	c.closed = true
	c.ClosedAt = s.Now()
	s.LogLocked("close", c.name)
	c.out.wrClosed = true
	c.in.rdClosed = true
	c.in.dropInflight()
	if c.lingerSet && c.linger == 0 {
		// SO_LINGER with a zero timeout: the send queue is thrown away and the
		// peer gets a RST
		s.CountLocked("net.abortive-close", 1)
		s.LogLocked("abort", c.name)
		// (what has already arrived in the peer's receive buffer stays readable:
		// the conservative reading; the reset surfaces behind it)
		c.out.dropInflight()
		c.out.reset = true
	}
	if c.rdTimer != nil {
		c.rdTimer.Stop()
	}
	if c.wrTimer != nil {
		c.wrTimer.Stop()
	}
	// wake everybody who may care
	c.in.wakeReader()
	c.out.wakeWriter()
	c.out.wakeReader()
	c.in.wakeWriter()
	return nil
}

// SetLinger, SetNoDelay, SetKeepAlive, SetKeepAlivePeriod: the socket options
// of *net.TCPConn (code under test reaches them through a type assertion
// that the build redirects to this type).  Only SetLinger(0) changes what the
// simulation does.
func (c *Conn) SetLinger(sec int) error {
	c.net.S.Lock()
	defer c.net.S.Unlock()
	if c.closed {
		return closedErr("set")
	}
	c.linger, c.lingerSet = sec, sec >= 0
	return nil
}
func (c *Conn) SetNoDelay(bool) error                  { return nil }
func (c *Conn) SetKeepAlive(bool) error                { return nil }
func (c *Conn) SetKeepAlivePeriod(time.Duration) error { return nil }

// CloseWrite half-closes (FIN) like *net.TCPConn.
func (c *Conn) CloseWrite() error {
	s := c.net.S
	s.Lock()
	defer s.Unlock()
	if c.closed {
		return closedErr("close")
	}
	s.LogLocked("closewrite", c.name)
	c.out.wrClosed = true
	c.out.wakeReader()
	return nil
}

func (c *Conn) Closed() bool {
	c.net.S.Lock()
	defer c.net.S.Unlock()
	return c.closed
}

// SetPeer changes the address RemoteAddr reports (scenarios in which one
// client talks to many different servers).
func (c *Conn) SetPeer(a net.Addr) { c.peer = a }

func (c *Conn) LocalAddr() net.Addr  { return c.local }
func (c *Conn) RemoteAddr() net.Addr { return c.peer }

func (c *Conn) SetDeadline(t time.Time) error {
	s := c.net.S
	s.Lock()
	defer s.Unlock()
	if c.closed {
		return closedErr("set")
	}
	c.Deadlines = append(c.Deadlines, DeadlineRec{At: s.Now(), Kind: "rw", T: t, ReadsBefore: c.ReadCalls, WritesBefore: len(c.Writes)})
	c.setR(t)
	c.setW(t)
	return nil
}

func (c *Conn) SetReadDeadline(t time.Time) error {
	s := c.net.S
	s.Lock()
	defer s.Unlock()
	if c.closed {
		return closedErr("set")
	}
	c.Deadlines = append(c.Deadlines, DeadlineRec{At: s.Now(), Kind: "r", T: t, ReadsBefore: c.ReadCalls, WritesBefore: len(c.Writes)})
	c.setR(t)
	return nil
}

func (c *Conn) SetWriteDeadline(t time.Time) error {
	s := c.net.S
	s.Lock()
	defer s.Unlock()
	if c.closed {
		return closedErr("set")
	}
	c.Deadlines = append(c.Deadlines, DeadlineRec{At: s.Now(), Kind: "w", T: t, ReadsBefore: c.ReadCalls, WritesBefore: len(c.Writes)})
	c.setW(t)
	return nil
}

func (c *Conn) setR(t time.Time) {
	s := c.net.S
	if c.rdTimer != nil {
		c.rdTimer.Stop()
		c.rdTimer = nil
	}
	c.rdl = t
	if t.IsZero() {
		return
	}
	d := time.Until(t)
	if d <= 0 {
		c.in.wakeReader()
		return
	}
	c.rdTimer = time.AfterFunc(d, func() {
		s.Lock()
		if c.rdl.Equal(t) {
			c.in.wakeReader()
		}
		s.Unlock()
	})
}

func (c *Conn) setW(t time.Time) {
	s := c.net.S
	if c.wrTimer != nil {
		c.wrTimer.Stop()
		c.wrTimer = nil
	}
	c.wdl = t
	if t.IsZero() {
		return
	}
	d := time.Until(t)
	if d <= 0 {
		c.out.wakeWriter()
		return
	}
	c.wrTimer = time.AfterFunc(d, func() {
		s.Lock()
		if c.wdl.Equal(t) {
			c.out.wakeWriter()
		}
		s.Unlock()
	})
}

// ReadDeadline reports the armed read deadline (zero if none).
func (c *Conn) ReadDeadline() time.Time {
	c.net.S.Lock()
	defer c.net.S.Unlock()
	return c.rdl
}

func errClass(err error) string {
	switch {
	case err == io.EOF:
		return "EOF"
	case os.IsTimeout(err):
		return "timeout"
	}
	if oe, ok := err.(*net.OpError); ok {
		return fmt.Sprint(oe.Err)
	}
	return err.Error()
}

var _ net.Conn = (*Conn)(nil)
