// Package simsync stands in for "sync" in woven code: acquiring a lock is a
// scheduler decision, and a task may be parked while holding one without
// wedging the real runtime.  Outside a simulation everything falls through to
// the real package.
package simsync

import (
	"sync"

	"verifsim/sim"
	"verifsim/verifrt"
)

type (
	Locker = sync.Locker
	Map    = sync.Map
	Pool   = sync.Pool
)

// Mutex: under simulation `held` is protected by the kernel lock and waiters
// block on a channel that Unlock closes.
type Mutex struct {
	real  sync.Mutex
	held  bool
	simul bool
	owner *sim.Sim // the simulation under which it was locked
	wait  chan struct{}
}

func task(s *sim.Sim) *sim.Task {
	if s == nil {
		return nil
	}
	return s.CurrentTask()
}

func (m *Mutex) Lock() {
	s := verifrt.Active()
	t := task(s)
	if t == nil {
		m.real.Lock()
		return
	}
	for {
		s.Park(t.Node, t.Name) // acquiring is a preemption point
		s.Lock()
		if !m.held {
			m.held, m.simul, m.owner = true, true, s
			s.Unlock()
			return
		}
		if m.wait == nil {
			m.wait = make(chan struct{})
		}
		w := m.wait
		s.Unlock()
		<-w
	}
}

func (m *Mutex) TryLock() bool {
	s := verifrt.Active()
	t := task(s)
	if t == nil {
		return m.real.TryLock()
	}
	s.Lock()
	defer s.Unlock()
	if m.held {
		return false
	}
	m.held, m.simul, m.owner = true, true, s
	return true
}

func (m *Mutex) Unlock() {
	// unlock the way it was locked, even if the simulation has been
	// deactivated in between (a task unwinding during teardown)
	if !m.simul {
		m.real.Unlock()
		return
	}
	s := m.owner
	s.Lock()
	if !m.held {
		s.Unlock()
		panic("sync: unlock of unlocked mutex")
	}
	m.held, m.simul = false, false
	if m.wait != nil {
		close(m.wait)
		m.wait = nil
	}
	s.Unlock()
}

// RWMutex is modelled as a plain mutex plus a reader count.
type RWMutex struct {
	real    sync.RWMutex
	w       Mutex
	readers int
	simul   bool
	wait    chan struct{}
}

func (m *RWMutex) Lock()  { m.lock(true) }
func (m *RWMutex) RLock() { m.lock(false) }
func (m *RWMutex) lock(write bool) {
	s := verifrt.Active()
	t := task(s)
	if t == nil {
		if write {
			m.real.Lock()
		} else {
			m.real.RLock()
		}
		return
	}
	for {
		s.Park(t.Node, t.Name)
		s.Lock()
		if write && m.readers == 0 && !m.w.held {
			m.w.held, m.simul = true, true
			s.Unlock()
			return
		}
		if !write && !m.w.held {
			m.readers++
			m.simul = true
			s.Unlock()
			return
		}
		if m.wait == nil {
			m.wait = make(chan struct{})
		}
		w := m.wait
		s.Unlock()
		<-w
	}
}
func (m *RWMutex) Unlock()  { m.unlock(true) }
func (m *RWMutex) RUnlock() { m.unlock(false) }
func (m *RWMutex) unlock(write bool) {
	s := verifrt.Active()
	if s == nil || !m.simul {
		if write {
			m.real.Unlock()
		} else {
			m.real.RUnlock()
		}
		return
	}
	s.Lock()
	if write {
		m.w.held = false
	} else {
		m.readers--
	}
	if m.readers == 0 && !m.w.held {
		m.simul = false
	}
	if m.wait != nil {
		close(m.wait)
		m.wait = nil
	}
	s.Unlock()
}

// Once.
type Once struct {
	m    Mutex
	done bool
}

func (o *Once) Do(f func()) {
	if o.done {
		return
	}
	o.m.Lock()
	defer o.m.Unlock()
	if !o.done {
		defer func() { o.done = true }()
		f()
	}
}

// WaitGroup.
type WaitGroup struct {
	real  sync.WaitGroup
	n     int
	simul bool
	wait  chan struct{}
}

func (wg *WaitGroup) Add(d int) {
	s := verifrt.Active()
	if task(s) == nil && !wg.simul {
		wg.real.Add(d)
		return
	}
	s.Lock()
	wg.simul = true
	wg.n += d
	if wg.n < 0 {
		s.Unlock()
		panic("sync: negative WaitGroup counter")
	}
	if wg.n == 0 && wg.wait != nil {
		close(wg.wait)
		wg.wait = nil
	}
	s.Unlock()
}

func (wg *WaitGroup) Done() { wg.Add(-1) }

func (wg *WaitGroup) Wait() {
	s := verifrt.Active()
	t := task(s)
	if t == nil || !wg.simul {
		wg.real.Wait()
		return
	}
	for {
		s.Park(t.Node, t.Name)
		s.Lock()
		if wg.n == 0 {
			s.Unlock()
			return
		}
		if wg.wait == nil {
			wg.wait = make(chan struct{})
		}
		w := wg.wait
		s.Unlock()
		<-w
	}
}

// Cond.
type Cond struct {
	L    Locker
	real *sync.Cond
	gen  chan struct{}
}

func NewCond(l Locker) *Cond { return &Cond{L: l, real: sync.NewCond(l)} }

func (c *Cond) Wait() {
	s := verifrt.Active()
	t := task(s)
	if t == nil {
		c.real.Wait()
		return
	}
	s.Lock()
	if c.gen == nil {
		c.gen = make(chan struct{})
	}
	g := c.gen
	s.Unlock()
	c.L.Unlock()
	<-g
	s.Park(t.Node, t.Name)
	c.L.Lock()
}

func (c *Cond) Broadcast() {
	s := verifrt.Active()
	if s == nil {
		c.real.Broadcast()
		return
	}
	s.Lock()
	if c.gen != nil {
		close(c.gen)
		c.gen = nil
	}
	s.Unlock()
	c.real.Broadcast()
}

func (c *Cond) Signal() { c.Broadcast() } // over-approximation: spurious wake-ups are legal
