module verifsim

go 1.20
