module verifsim

go 1.20

require golang.org/x/crypto v0.14.0

require golang.org/x/sys v0.13.0 // indirect
