// empty: allows body-less (linknamed) function declarations in this package
