// Package sim is the simulation kernel: a park/release scheduler running on
// the root goroutine of a testing/synctest bubble.  Every goroutine the kernel
// can name announces a preemption point by parking; the scheduler waits for
// quiescence (synctest.Wait), collects the enabled events (parked tasks,
// network deliveries, fault actions), lets the tape pick exactly one, logs it
// under a global sequence number and fires it.  Virtual time only advances
// when nothing is enabled.
package sim

import (
	"crypto/sha256"
	"encoding/hex"
	"fmt"
	"hash"
	"regexp"
	"runtime/debug"
	"slices"
	"sort"
	"strconv"
	"strings"
	"sync"
	"sync/atomic"
	"testing/synctest"
	"time"

	"verifsim/tape"
)

// Progress counts scheduler decisions across all runs of the process; the
// harness watchdog uses it to tell a run that is merely long from one in
// which a released task never yields again.
var Progress atomic.Uint64

// WallExpired is raised by the harness watchdog (which lives on the real
// clock) when the current run has used up its wall-clock allowance; the run
// then ends like one that ran out of steps: inconclusive, never a verdict.
var WallExpired atomic.Bool

// RunWallExtra lets a scenario that knows it is long (a history of a hundred
// thousand connections) ask for more wall-clock time for the current run, in
// seconds; the harness resets it before every run.
var RunWallExtra atomic.Int64

// Event is something the scheduler may choose to do next.
type Event struct {
	Key     string // total order among simultaneously enabled events
	Node    string // who acts (selects the entropy stream, used by strategies)
	Fire    func() // run on the scheduler goroutine; must not block
	ReadyAt time.Time
}

// Source contributes enabled events (e.g. the network).  Called with the
// kernel lock held.
type Source interface {
	Events(now time.Time, add func(Event))
}

type Violation struct {
	Class  string `json:"class"`
	Detail string `json:"detail"`
	Seq    uint64 `json:"seq"`
	VTime  int64  `json:"vtime_ns"`
}

type Task struct {
	Name  string
	Node  string
	Done  bool
	Panic interface{}
	kids  int
}

type Stop int

const (
	StopCond Stop = iota
	StopDone
	StopTime
	StopSteps
	StopViolation
)

func (s Stop) String() string {
	return [...]string{"cond", "done", "time", "steps", "violation"}[s]
}

type parked struct {
	key  string
	node string
	ch   chan struct{}
}

type Sim struct {
	mu      sync.Mutex
	T       *tape.Tape
	Start   time.Time
	seq     uint64
	steps   uint64
	h       hash.Hash
	Trace   []string
	TraceOn bool
	// TraceMax bounds the retained trace lines (the hash covers everything).
	TraceMax int

	parkedQ []*parked
	sources []Source
	wake    chan struct{}
	tasks   []*Task
	live    int
	current string
	gnode   map[uint64]string
	gtask   map[uint64]*Task
	// YieldOn decides whether a woven statement-level yield site is an
	// actual preemption point in this run (nil = every site).
	YieldOn func(site int) bool
	// TimeSkip, when > 0, lets the scheduler occasionally (1 in TimeSkip
	// decisions) let virtual time pass although tasks are runnable (a stalled
	// thread): it sleeps until the next timer or SkipMax.
	TimeSkip int
	SkipMax  time.Duration
	// SkipBudget bounds the total time skipped in one run (0 = unbounded), so
	// that stalls do not add up past the deadlines of the code under test.
	SkipBudget time.Duration
	skipped    time.Duration

	strat strategy

	MaxSteps  uint64
	Exhausted bool // the step / tape budget ran out
	// Mute drops violations (used while a fault-injected phase runs whose
	// verdict is judged afterwards by the recovery check instead).
	Mute       bool
	Counters   map[string]int64
	Violations []Violation
	// StopOnViolation makes Run return as soon as a violation is recorded.
	StopOnViolation bool
	// PreStep, if set, runs on the scheduler goroutine before each decision
	// (used to arm the runtime select seam and to sample abstract states).
	PreStep func()
	// Recover, if set, is consulted for panics in tasks before they are
	// reported as violations (crash simulation uses a private panic value).
	Recover func(task string, r interface{}) bool
}

func New(t *tape.Tape) *Sim {
	s := &Sim{
		T:               t,
		Start:           time.Now(),
		h:               sha256.New(),
		wake:            make(chan struct{}, 1),
		MaxSteps:        400000,
		Counters:        map[string]int64{},
		gnode:           map[uint64]string{},
		gtask:           map[uint64]*Task{},
		StopOnViolation: true,
		TraceMax:        4000,
	}
	s.strat.init(s)
	return s
}

func (s *Sim) AddSource(src Source) {
	s.mu.Lock()
	s.sources = append(s.sources, src)
	s.mu.Unlock()
}

// Lock / Unlock expose the kernel lock to sibling packages (simnet, simos):
// all simulated state lives under this one lock, which is never held while a
// goroutine is parked.
func (s *Sim) Lock()   { s.mu.Lock() }
func (s *Sim) Unlock() { s.mu.Unlock() }

func (s *Sim) Now() time.Duration { return time.Since(s.Start) }

func (s *Sim) Steps() uint64 { return s.steps }

func (s *Sim) Current() string {
	s.mu.Lock()
	defer s.mu.Unlock()
	return s.current
}

// goid returns the current goroutine's id (from the runtime seam).
func goid() uint64 { return rtGoid() }

// EntropyNode names the node on whose behalf the calling goroutine acts.
// Goroutines started through Go (or registered with Adopt) are known by id,
// so the answer does not depend on what the scheduler is doing when a
// goroutine wakes from a timer by itself; unknown goroutines fall back to
// the node of the last scheduled event.
func (s *Sim) EntropyNode() string {
	g := goid()
	s.mu.Lock()
	defer s.mu.Unlock()
	if n, ok := s.gnode[g]; ok {
		return n
	}
	return s.current
}

func (s *Sim) adoptTask(t *Task) func() {
	g := goid()
	s.mu.Lock()
	s.gtask[g] = t
	s.mu.Unlock()
	return func() {
		s.mu.Lock()
		delete(s.gtask, g)
		s.mu.Unlock()
	}
}

// CurrentTask returns the task the calling goroutine runs as (nil for
// goroutines the kernel did not start).
func (s *Sim) CurrentTask() *Task {
	g := goid()
	s.mu.Lock()
	defer s.mu.Unlock()
	return s.gtask[g]
}

// Sleep lets d of virtual time pass and then parks, so that what the caller
// does after waking up is ordered by the scheduler (several goroutines whose
// timers fire at the same virtual instant would otherwise race).
func (s *Sim) Sleep(d time.Duration) {
	if d > 0 {
		time.Sleep(d)
	}
	if t := s.CurrentTask(); t != nil && !t.Done {
		s.Park(t.Node, t.Name)
	}
}

// YieldSite is called by woven code before a statement.
func (s *Sim) YieldSite(site int) {
	if s.YieldOn != nil && !s.YieldOn(site) {
		return
	}
	t := s.CurrentTask()
	if t == nil || t.Done {
		return
	}
	s.Park(t.Node, t.Name)
}

// GoChild starts a goroutine spawned by woven code as a named task: its
// identity is parent>site#n, deterministic under replay.
func (s *Sim) GoChild(site int, f func()) {
	parent := s.CurrentTask()
	name := "anon"
	if parent != nil {
		s.mu.Lock()
		parent.kids++
		n := parent.kids
		s.mu.Unlock()
		name = parent.Name + ">" + strconv.Itoa(site) + "#" + strconv.Itoa(n)
	}
	s.Go(name, f)
}

// Adopt registers the calling goroutine as belonging to node until the
// returned function is called.
func (s *Sim) Adopt(node string) func() {
	g := goid()
	s.mu.Lock()
	s.gnode[g] = node
	s.mu.Unlock()
	return func() {
		s.mu.Lock()
		delete(s.gnode, g)
		s.mu.Unlock()
	}
}

func (s *Sim) Notify() {
	select {
	case s.wake <- struct{}{}:
	default:
	}
}

// Park announces a preemption point and blocks until the scheduler releases
// the caller.  key orders simultaneously parked goroutines; node names the
// acting party.
func (s *Sim) Park(node, key string) {
	p := &parked{key: key, node: node, ch: make(chan struct{})}
	s.mu.Lock()
	s.parkedQ = append(s.parkedQ, p)
	s.mu.Unlock()
	s.Notify()
	<-p.ch
}

// Go starts a named harness task.  The task first parks, so even its start
// is a scheduler decision.
func (s *Sim) Go(name string, f func()) *Task {
	t := &Task{Name: name, Node: NodeOf(name)}
	s.mu.Lock()
	s.tasks = append(s.tasks, t)
	s.live++
	s.mu.Unlock()
	node := t.Node
	go func() {
		defer s.Adopt(node)()
		defer s.adoptTask(t)()
		defer func() {
			if r := recover(); r != nil {
				if s.Recover == nil || !s.Recover(name, r) {
					t.Panic = r
					s.Violate("panic:"+Normalize(fmt.Sprint(r))+"@"+topRepoFrame(debug.Stack()),
						fmt.Sprintf("task %s panicked: %v\n%s", name, r, trimStack(debug.Stack())))
				}
			}
			s.mu.Lock()
			t.Done = true
			s.live--
			s.mu.Unlock()
			s.Notify()
		}()
		s.Park(node, name)
		f()
	}()
	return t
}

// NodeOf derives the node name from a task / event key: the part before the
// first '/'.
func NodeOf(key string) string {
	if i := strings.IndexByte(key, '/'); i >= 0 {
		return key[:i]
	}
	return key
}

func (s *Sim) Live() int {
	s.mu.Lock()
	defer s.mu.Unlock()
	return s.live
}

// LiveTasks lists tasks that have not finished (sorted).
func (s *Sim) LiveTasks() []string {
	s.mu.Lock()
	defer s.mu.Unlock()
	var out []string
	for _, t := range s.tasks {
		if !t.Done {
			out = append(out, t.Name)
		}
	}
	sort.Strings(out)
	return out
}

func (s *Sim) Count(name string, d int64) {
	s.mu.Lock()
	s.Counters[name] += d
	s.mu.Unlock()
}

// CountLocked is Count for callers that already hold the kernel lock.
func (s *Sim) CountLocked(name string, d int64) { s.Counters[name] += d }

func (s *Sim) Violate(class, detail string) {
	s.mu.Lock()
	if s.Exhausted || s.Mute {
		// the run ran out of its step budget: whatever is observed afterwards
		// is a consequence of stopping early, not of the code under test
		s.mu.Unlock()
		return
	}
	s.Violations = append(s.Violations, Violation{Class: class, Detail: detail, Seq: s.seq, VTime: int64(time.Since(s.Start))})
	s.logLocked("VIOLATION", class)
	s.mu.Unlock()
	s.Notify()
}

func (s *Sim) Violated() bool {
	s.mu.Lock()
	defer s.mu.Unlock()
	return len(s.Violations) > 0
}

// Log appends one line to the event log (hash and optional trace).  It must
// only be called from a context the scheduler has serialised (a released
// task, or the scheduler itself).
func (s *Sim) Log(what, detail string) {
	s.mu.Lock()
	s.logLocked(what, detail)
	s.mu.Unlock()
}

func (s *Sim) LogLocked(what, detail string) { s.logLocked(what, detail) }

func (s *Sim) logLocked(what, detail string) {
	s.seq++
	var b [96]byte
	line := strconv.AppendUint(b[:0], s.seq, 10)
	line = append(line, ' ')
	line = strconv.AppendInt(line, int64(time.Since(s.Start)), 10)
	line = append(line, ' ')
	line = append(line, what...)
	line = append(line, ' ')
	line = append(line, detail...)
	line = append(line, '\n')
	s.h.Write(line)
	if s.TraceOn && len(s.Trace) < s.TraceMax {
		s.Trace = append(s.Trace, string(line[:len(line)-1]))
	}
}

// Seq returns the global event sequence number (for stamping histories).
func (s *Sim) Seq() uint64 {
	s.mu.Lock()
	defer s.mu.Unlock()
	return s.seq
}

func (s *Sim) LogHash() string { return hex.EncodeToString(s.h.Sum(nil)) }

// Run drives the simulation until the condition holds (checked at
// quiescence, before every decision), every task has finished, maxV of
// virtual time has passed, or the step budget is exhausted.
func (s *Sim) Run(until func() bool, maxV time.Duration) Stop {
	deadline := time.Now().Add(maxV)
	for {
		synctest.Wait()
		if s.StopOnViolation && s.Violated() {
			return StopViolation
		}
		if until != nil && until() {
			return StopCond
		}
		now := time.Now()
		if !now.Before(deadline) {
			return StopTime
		}
		if s.steps >= s.MaxSteps || s.T.Over || WallExpired.Load() {
			s.mu.Lock()
			s.Exhausted = true
			s.mu.Unlock()
			return StopSteps
		}
		s.mu.Lock()
		evs, next := s.collectLocked(now)
		if len(evs) == 0 {
			live := s.live
			s.mu.Unlock()
			if live == 0 && next.IsZero() && until == nil {
				return StopDone
			}
			wait := deadline.Sub(now)
			if !next.IsZero() && next.Sub(now) < wait {
				wait = next.Sub(now)
			}
			tm := time.NewTimer(wait)
			select {
			case <-s.wake:
				tm.Stop()
			case <-tm.C:
			}
			continue
		}
		s.mu.Unlock()
		if s.TimeSkip > 0 && s.T.Draw("skip", s.TimeSkip) == s.TimeSkip-1 {
			// a stalled machine: runnable tasks are held back while time passes
			opts := []time.Duration{time.Nanosecond, time.Microsecond, time.Millisecond, time.Second, s.SkipMax}
			d := opts[s.T.Draw("skip.d", len(opts))]
			if d > s.SkipMax {
				d = s.SkipMax
			}
			if s.SkipBudget > 0 && d > s.SkipBudget-s.skipped {
				d = s.SkipBudget - s.skipped
			}
			s.skipped += d
			if d > 0 {
				s.mu.Lock()
				s.logLocked("skip", d.String())
				s.Counters["fault.time-skip"]++
				s.mu.Unlock()
				time.Sleep(d)
				continue
			}
		}
		if s.PreStep != nil {
			s.PreStep()
		}
		s.mu.Lock()
		i := s.strat.pick(evs)
		ev := evs[i]
		s.steps++
		Progress.Add(1)
		s.current = ev.Node
		s.logLocked("E", ev.Key)
		// remove from the parked queue if it is a parked task
		s.mu.Unlock()
		ev.Fire()
	}
}

func (s *Sim) collectLocked(now time.Time) ([]Event, time.Time) {
	var evs []Event
	var next time.Time
	for _, p := range s.parkedQ {
		p := p
		evs = append(evs, Event{Key: p.key, Node: p.node, Fire: func() { s.release(p) }})
	}
	add := func(e Event) {
		if !e.ReadyAt.IsZero() && e.ReadyAt.After(now) {
			if next.IsZero() || e.ReadyAt.Before(next) {
				next = e.ReadyAt
			}
			return
		}
		evs = append(evs, e)
	}
	for _, src := range s.sources {
		src.Events(now, add)
	}
	// (typed stable sort: with hundreds of parked tasks the reflection-based
	// sort.SliceStable dominated the cost of a scheduling step)
	slices.SortStableFunc(evs, func(a, b Event) int { return strings.Compare(a.Key, b.Key) })
	// Keys starting with '~' are idle-only events (lazy deliveries): they are
	// offered only when nothing else is enabled.
	k := len(evs)
	for k > 0 && evs[k-1].Key[0] == '~' {
		k--
	}
	if k > 0 {
		evs = evs[:k]
	}
	return evs, next
}

func (s *Sim) release(p *parked) {
	s.mu.Lock()
	for i, q := range s.parkedQ {
		if q == p {
			s.parkedQ = append(s.parkedQ[:i], s.parkedQ[i+1:]...)
			break
		}
	}
	s.mu.Unlock()
	close(p.ch)
}

// ---- strategies -----------------------------------------------------------

type strategy struct {
	s        *Sim
	kind     int
	lastNode string
	prio     map[string]int
	low      int
	changeAt map[uint64]bool
	inited   bool
}

func (st *strategy) init(s *Sim) { st.s = s }

// StrategyName reports the strategy of this run (chosen at the first decision).
func (s *Sim) StrategyName() string {
	return [...]string{"fifo", "uniform", "sticky", "pct"}[s.strat.kind]
}

// ForceStrategy pins the strategy (0 fifo, 1 uniform, 2 sticky, 3 pct).
func (s *Sim) ForceStrategy(k int) { s.strat.kind = k; s.strat.setup() }

func (st *strategy) setup() {
	st.inited = true
	if st.kind == 3 {
		st.prio = map[string]int{}
		st.changeAt = map[uint64]bool{}
		n := 1 + st.s.T.Draw("pct.d", 3)
		for i := 0; i < n; i++ {
			st.changeAt[uint64(1+st.s.T.Draw("pct.at", 3000))] = true
		}
	}
}

func (st *strategy) pick(evs []Event) int {
	t := st.s.T
	if !st.inited {
		k := t.Draw("strategy", 8)
		st.kind = [...]int{0, 1, 1, 1, 2, 2, 3, 3}[k]
		st.setup()
	}
	n := len(evs)
	i := 0
	switch st.kind {
	case 0:
		i = 0
	case 1:
		i = t.Draw("s", n)
	case 2:
		if n > 1 {
			if t.Draw("k", 4) != 3 {
				i = -1
				for j, e := range evs {
					if e.Node == st.lastNode {
						i = j
						break
					}
				}
				if i < 0 {
					i = t.Draw("s", n)
				}
			} else {
				i = t.Draw("s", n)
			}
		}
	case 3:
		best := -1
		for j, e := range evs {
			k := prioKey(e.Key)
			p, ok := st.prio[k]
			if !ok {
				p = 1000 + t.Draw("pct.p", 1<<16)
				st.prio[k] = p
			}
			if best < 0 || p > st.prio[prioKey(evs[best].Key)] {
				best = j
			}
		}
		i = best
		if st.changeAt[st.s.steps] {
			st.low--
			st.prio[prioKey(evs[i].Key)] = st.low + 999
		}
	}
	st.lastNode = evs[i].Node
	return i
}

// prioKey groups event keys into schedulable entities for PCT priorities
// (strip per-operation suffixes after '#').
func prioKey(k string) string {
	if i := strings.IndexByte(k, '#'); i >= 0 {
		return k[:i]
	}
	return k
}

// ---- helpers ----------------------------------------------------------------

var reDigits = regexp.MustCompile(`[0-9]+`)
var reHex = regexp.MustCompile(`0x[0-9a-f]+`)

// Normalize strips numbers so that violation classes are stable under
// shrinking.
func Normalize(s string) string {
	s = reHex.ReplaceAllString(s, "X")
	s = reDigits.ReplaceAllString(s, "N")
	if len(s) > 160 {
		s = s[:160]
	}
	return s
}

func topRepoFrame(stack []byte) string {
	lines := strings.Split(string(stack), "\n")
	for i, l := range lines {
		if strings.HasPrefix(l, "gitlab.com/yawning/obfs4.git/") || strings.HasPrefix(l, "main.") {
			if strings.Contains(l, "zz_verif") {
				continue
			}
			fn := l
			if j := strings.LastIndexByte(fn, '('); j > 0 {
				fn = fn[:j]
			}
			_ = i
			return strings.TrimPrefix(fn, "gitlab.com/yawning/obfs4.git/")
		}
	}
	return "?"
}

var reAddr = regexp.MustCompile(`\+0x[0-9a-f]+|0x[0-9a-f]+|goroutine [0-9]+`)

func trimStack(stack []byte) string {
	s := reAddr.ReplaceAllString(string(stack), "_")
	lines := strings.Split(s, "\n")
	if len(lines) > 40 {
		lines = lines[:40]
	}
	return strings.Join(lines, "\n")
}

// TrimStack exposes the stack sanitiser.
func TrimStack(b []byte) string { return trimStack(b) }

// TopRepoFrame exposes the frame finder.
func TopRepoFrame(b []byte) string { return topRepoFrame(b) }
