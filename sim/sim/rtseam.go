package sim

import _ "unsafe" // for go:linkname

// The two symbols below live in the runtime copy that /verif/rtpatch adds
// through the build overlay; every engine is built with it.

//go:linkname rtSelectSeed runtime.verifSelectSeed
var rtSelectSeed uint32

//go:linkname rtGoid runtime.verifGoid
func rtGoid() uint64

// ArmSelect makes the scheduler draw a fresh seed for the runtime's select
// order before every decision (needed when code under test selects among
// several simultaneously ready channels).
func (s *Sim) ArmSelect() {
	s.PreStep = func() { rtSelectSeed = 1 + uint32(s.T.Draw("sel", 1<<16)) }
}

// DisarmSelect restores the stock behaviour.
func DisarmSelect() { rtSelectSeed = 0 }
