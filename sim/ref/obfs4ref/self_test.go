package obfs4ref

import (
	"crypto/rand"
	"testing"
)

func TestEll2RoundTrip(t *testing.T) {
	for i := 0; i < 50; i++ {
		k := NewKeypair(rand.Reader)
		if RepToPublic(k.Rep) != k.Pub {
			t.Fatal("roundtrip")
		}
		if !OnCurve(k.Pub) {
			t.Fatal("not on curve")
		}
	}
	// every string decodes to a point on the curve
	for i := 0; i < 200; i++ {
		var r [32]byte
		rand.Read(r[:])
		if !OnCurve(RepToPublic(r)) {
			t.Fatal("decoded point not on curve")
		}
	}
}

func TestSipHashVector(t *testing.T) {
	// reference vector from the SipHash paper: key 00..0f, msg 00..0e
	var key [16]byte
	for i := range key {
		key[i] = byte(i)
	}
	msg := make([]byte, 15)
	for i := range msg {
		msg[i] = byte(i)
	}
	if got := SipHash24(key, msg); got != 0xa129ca6149be45e5 {
		t.Fatalf("siphash %x", got)
	}
}

func TestNtorAgree(t *testing.T) {
	var nid [20]byte
	var priv [32]byte
	rand.Read(nid[:])
	rand.Read(priv[:])
	id := NewIdentity(nid, priv)
	x, y := NewKeypair(rand.Reader), NewKeypair(rand.Reader)
	s1, a1, ok1 := NtorClient(x, y.Pub, id.Pub, id.NodeID)
	s2, a2, ok2 := NtorServer(x.Pub, y, id)
	if !ok1 || !ok2 || s1 != s2 || a1 != a2 {
		t.Fatal("ntor mismatch")
	}
}

func TestDrbgIncrementalEqualsOneShot(t *testing.T) {
	seed := make([]byte, 24)
	rand.Read(seed)
	a, b := NewDrbg(seed), NewDrbgSlow(seed)
	for i := 0; i < 300; i++ {
		if a.NextBlock() != b.NextBlock() {
			t.Fatalf("block %d differs", i)
		}
	}
}
