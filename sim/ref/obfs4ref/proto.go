package obfs4ref

import (
	"bytes"
	"crypto/hmac"
	"crypto/sha256"
	"encoding/base64"
	"encoding/binary"
	"encoding/hex"
	"errors"
	"fmt"
	"io"
	"strconv"

	"golang.org/x/crypto/curve25519"
	"golang.org/x/crypto/hkdf"
	"golang.org/x/crypto/nacl/secretbox"
)

// ---- protocol constants (from the property statement / protocol document) ----

const (
	MaxHandshakeLength = 8192
	MarkLength         = 16
	MacLength          = 16
	RepLength          = 32
	AuthLength         = 32
	NodeIDLength       = 20
	ClientMinPad       = 77
	ClientMaxPad       = MaxHandshakeLength - (RepLength + MarkLength + MacLength) // 8128
	SeedFrameLength    = 2 + 16 + 3 + 24                                           // 45
	ServerMaxPad       = MaxHandshakeLength - (RepLength + AuthLength + MarkLength + MacLength) - SeedFrameLength
	MaxSegment         = 1448
	FrameOverhead      = 2 + 16
	MaxFramePayload    = MaxSegment - FrameOverhead // 1430
	PacketOverhead     = 3
	MaxPacketPayload   = MaxFramePayload - PacketOverhead // 1427
	KeyMaterialLength  = 144
	PacketPayload      = 0
	PacketPrngSeed     = 1
	SeedLength         = 24
)

var protoID = "ntor-curve25519-sha256-1"

// ---- identities and bridge lines ---------------------------------------------------

type Identity struct {
	NodeID [20]byte
	Priv   [32]byte // zero if unknown (client side)
	Pub    [32]byte
}

func basepoint() []byte { return curve25519.Basepoint }

// NewIdentity derives the public key from a private key with standard X25519.
func NewIdentity(nodeID [20]byte, priv [32]byte) Identity {
	pub, err := curve25519.X25519(priv[:], basepoint())
	if err != nil {
		panic(err)
	}
	id := Identity{NodeID: nodeID, Priv: priv}
	copy(id.Pub[:], pub)
	return id
}

// Cert renders the unified bridge-line argument: base64(nodeID|publicKey)
// without the trailing "==".
func (id Identity) Cert() string {
	raw := append(append([]byte{}, id.NodeID[:]...), id.Pub[:]...)
	s := base64.StdEncoding.EncodeToString(raw)
	for len(s) > 0 && s[len(s)-1] == '=' {
		s = s[:len(s)-1]
	}
	return s
}

// ParseCert is the inverse of Cert.
func ParseCert(s string) (Identity, error) {
	var id Identity
	for len(s)%4 != 0 {
		s += "="
	}
	raw, err := base64.StdEncoding.DecodeString(s)
	if err != nil {
		return id, err
	}
	if len(raw) != 52 {
		return id, fmt.Errorf("cert length %d", len(raw))
	}
	copy(id.NodeID[:], raw[:20])
	copy(id.Pub[:], raw[20:])
	return id, nil
}

func (id Identity) NodeIDHex() string { return hex.EncodeToString(id.NodeID[:]) }
func (id Identity) PubHex() string    { return hex.EncodeToString(id.Pub[:]) }
func (id Identity) PrivHex() string   { return hex.EncodeToString(id.Priv[:]) }

// ---- ephemeral keys --------------------------------------------------------------------

type Keypair struct {
	Priv [32]byte
	Pub  [32]byte
	Rep  [32]byte
}

// NewKeypair draws private keys from rnd until the public key has an
// Elligator 2 representative.
func NewKeypair(rnd io.Reader) *Keypair {
	for {
		var k Keypair
		if _, err := io.ReadFull(rnd, k.Priv[:]); err != nil {
			panic(err)
		}
		var sel [1]byte
		io.ReadFull(rnd, sel[:])
		pub, err := curve25519.X25519(k.Priv[:], basepoint())
		if err != nil {
			continue
		}
		copy(k.Pub[:], pub)
		rep, ok := PublicToRep(k.Pub, int(sel[0]&1), sel[0]>>6)
		if !ok {
			continue
		}
		k.Rep = rep
		return &k
	}
}

func x25519(priv, pub [32]byte) (out [32]byte, ok bool) {
	r, err := curve25519.X25519(priv[:], pub[:])
	if err != nil {
		return out, false // all-zero output: low order input
	}
	copy(out[:], r)
	return out, true
}

// ---- ntor (deployed variant) ---------------------------------------------------------------

func hm(key string, data []byte) []byte {
	h := hmac.New(sha256.New, []byte(key))
	h.Write(data)
	return h.Sum(nil)
}

func ntorFinish(exp1, exp2 [32]byte, B, X, Y [32]byte, id [20]byte) (keySeed, auth [32]byte) {
	var suffix []byte
	suffix = append(suffix, B[:]...)
	suffix = append(suffix, B[:]...)
	suffix = append(suffix, X[:]...)
	suffix = append(suffix, Y[:]...)
	suffix = append(suffix, protoID...)
	suffix = append(suffix, id[:]...)
	var secretInput []byte
	secretInput = append(secretInput, exp1[:]...)
	secretInput = append(secretInput, exp2[:]...)
	secretInput = append(secretInput, suffix...)
	copy(keySeed[:], hm(protoID+":key_extract", secretInput))
	verify := hm(protoID+":key_verify", secretInput)
	authInput := append(append(append([]byte{}, verify...), suffix...), "Server"...)
	copy(auth[:], hm(protoID+":mac", authInput))
	return
}

// NtorClient: x is the client's ephemeral key, Y the server's ephemeral
// public key, B the identity public key.
func NtorClient(x *Keypair, Y, B [32]byte, id [20]byte) (keySeed, auth [32]byte, ok bool) {
	e1, ok1 := x25519(x.Priv, Y)
	e2, ok2 := x25519(x.Priv, B)
	keySeed, auth = ntorFinish(e1, e2, B, x.Pub, Y, id)
	return keySeed, auth, ok1 && ok2
}

// NtorServer: X is the client's ephemeral public key.
func NtorServer(X [32]byte, y *Keypair, ident Identity) (keySeed, auth [32]byte, ok bool) {
	e1, ok1 := x25519(y.Priv, X)
	e2, ok2 := x25519(ident.Priv, X)
	keySeed, auth = ntorFinish(e1, e2, ident.Pub, X, y.Pub, ident.NodeID)
	return keySeed, auth, ok1 && ok2
}

// NtorServerForged is what an impostor without the identity private key can
// compute when the bridge line's identity public key is a low-order point:
// EXP(B,x) is then the all-zero string for every client key x, so the second
// exponentiation is simply filled in with zeros.
func NtorServerForged(X [32]byte, y *Keypair, B [32]byte, id [20]byte) (keySeed, auth [32]byte) {
	e1, _ := x25519(y.Priv, X)
	var zero [32]byte
	return ntorFinish(e1, zero, B, X, y.Pub, id)
}

// ServerReplyForged builds a complete response around NtorServerForged.
func ServerReplyForged(ident Identity, eph *Keypair, req *ClientRequestInfo, pad []byte) (resp []byte, keySeed [32]byte) {
	seed, auth := NtorServerForged(req.X, eph, ident.Pub, ident.NodeID)
	key := hmacKey(ident)
	var b []byte
	b = append(b, eph.Rep[:]...)
	b = append(b, auth[:]...)
	b = append(b, pad...)
	b = append(b, markMac(key, eph.Rep[:])...)
	b = append(b, markMac(key, b, HourString(req.Hour))...)
	return b, seed
}

// KDF expands KEY_SEED into n bytes of key material.
func KDF(keySeed []byte, n int) []byte {
	r := hkdf.New(sha256.New, keySeed, []byte(protoID+":key_extract"), []byte(protoID+":key_expand"))
	out := make([]byte, n)
	if _, err := io.ReadFull(r, out); err != nil {
		panic(err)
	}
	return out
}

// ---- SipHash-2-4 and the OFB generator ---------------------------------------------------

func rotl64(x uint64, b uint) uint64 { return (x << b) | (x >> (64 - b)) }

// SipHash24 is SipHash-2-4 with a 128-bit key over msg.
func SipHash24(key [16]byte, msg []byte) uint64 {
	k0 := binary.LittleEndian.Uint64(key[0:8])
	k1 := binary.LittleEndian.Uint64(key[8:16])
	v0 := k0 ^ 0x736f6d6570736575
	v1 := k1 ^ 0x646f72616e646f6d
	v2 := k0 ^ 0x6c7967656e657261
	v3 := k1 ^ 0x7465646279746573
	round := func() {
		v0 += v1
		v1 = rotl64(v1, 13)
		v1 ^= v0
		v0 = rotl64(v0, 32)
		v2 += v3
		v3 = rotl64(v3, 16)
		v3 ^= v2
		v0 += v3
		v3 = rotl64(v3, 21)
		v3 ^= v0
		v2 += v1
		v1 = rotl64(v1, 17)
		v1 ^= v2
		v2 = rotl64(v2, 32)
	}
	n := len(msg)
	for len(msg) >= 8 {
		m := binary.LittleEndian.Uint64(msg)
		v3 ^= m
		round()
		round()
		v0 ^= m
		msg = msg[8:]
	}
	var last [8]byte
	copy(last[:], msg)
	last[7] = byte(n)
	m := binary.LittleEndian.Uint64(last[:])
	v3 ^= m
	round()
	round()
	v0 ^= m
	v2 ^= 0xff
	round()
	round()
	round()
	round()
	return v0 ^ v1 ^ v2 ^ v3
}

// Drbg is the deployed length-mask generator: block n is SipHash-2-4, keyed
// with the first 16 seed bytes, of the concatenation of the 8-byte IV and all
// previous blocks (the hash state keeps running), output little-endian.
// The state is kept incrementally (absorbing one 8-byte word per block);
// DrbgSlow recomputes every block from scratch with the one-shot function and
// is used to cross-check this one.
type Drbg struct {
	v0, v1, v2, v3 uint64
	n              int // bytes absorbed
	ofb            [8]byte
}

func sipRound(v0, v1, v2, v3 uint64) (uint64, uint64, uint64, uint64) {
	v0 += v1
	v1 = rotl64(v1, 13)
	v1 ^= v0
	v0 = rotl64(v0, 32)
	v2 += v3
	v3 = rotl64(v3, 16)
	v3 ^= v2
	v0 += v3
	v3 = rotl64(v3, 21)
	v3 ^= v0
	v2 += v1
	v1 = rotl64(v1, 17)
	v1 ^= v2
	v2 = rotl64(v2, 32)
	return v0, v1, v2, v3
}

func NewDrbg(seed []byte) *Drbg {
	k0 := binary.LittleEndian.Uint64(seed[0:8])
	k1 := binary.LittleEndian.Uint64(seed[8:16])
	d := &Drbg{v0: k0 ^ 0x736f6d6570736575, v1: k1 ^ 0x646f72616e646f6d, v2: k0 ^ 0x6c7967656e657261, v3: k1 ^ 0x7465646279746573}
	copy(d.ofb[:], seed[16:24])
	return d
}

func (d *Drbg) NextBlock() [8]byte {
	// absorb the previous output (or the IV)
	m := binary.LittleEndian.Uint64(d.ofb[:])
	v0, v1, v2, v3 := d.v0, d.v1, d.v2, d.v3
	v3 ^= m
	v0, v1, v2, v3 = sipRound(v0, v1, v2, v3)
	v0, v1, v2, v3 = sipRound(v0, v1, v2, v3)
	v0 ^= m
	d.v0, d.v1, d.v2, d.v3 = v0, v1, v2, v3
	d.n += 8
	// finalise a copy: the last word holds only the length byte
	m = uint64(byte(d.n)) << 56
	v3 ^= m
	v0, v1, v2, v3 = sipRound(v0, v1, v2, v3)
	v0, v1, v2, v3 = sipRound(v0, v1, v2, v3)
	v0 ^= m
	v2 ^= 0xff
	for i := 0; i < 4; i++ {
		v0, v1, v2, v3 = sipRound(v0, v1, v2, v3)
	}
	binary.LittleEndian.PutUint64(d.ofb[:], v0^v1^v2^v3)
	return d.ofb
}

// DrbgSlow is the same generator written with the one-shot hash.
type DrbgSlow struct {
	key  [16]byte
	hist []byte
}

func NewDrbgSlow(seed []byte) *DrbgSlow {
	d := &DrbgSlow{}
	copy(d.key[:], seed[:16])
	d.hist = append(d.hist, seed[16:24]...)
	return d
}

func (d *DrbgSlow) NextBlock() [8]byte {
	var out [8]byte
	binary.LittleEndian.PutUint64(out[:], SipHash24(d.key, d.hist))
	d.hist = append(d.hist, out[:]...)
	return out
}

// Int63 makes Drbg a math/rand Source like the deployed one (big-endian read
// of the block, top bit cleared).
func (d *Drbg) Int63() int64 {
	b := d.NextBlock()
	return int64(binary.BigEndian.Uint64(b[:]) & (1<<63 - 1))
}
func (d *Drbg) Seed(int64) {}

// ---- frames ----------------------------------------------------------------------------------

type Encoder struct {
	key    [32]byte
	prefix [16]byte
	ctr    uint64
	drbg   *Drbg
}

func NewEncoder(km []byte) *Encoder {
	e := &Encoder{ctr: 1}
	copy(e.key[:], km[:32])
	copy(e.prefix[:], km[32:48])
	e.drbg = NewDrbg(km[48:72])
	return e
}

func (e *Encoder) nonce() *[24]byte {
	var n [24]byte
	copy(n[:], e.prefix[:])
	binary.BigEndian.PutUint64(n[16:], e.ctr)
	return &n
}

// Encode seals one frame.
func (e *Encoder) Encode(payload []byte) []byte {
	if len(payload) > MaxFramePayload {
		panic("obfs4ref: oversize frame payload")
	}
	box := secretbox.Seal(nil, payload, e.nonce(), &e.key)
	e.ctr++
	mask := e.drbg.NextBlock()
	l := uint16(len(box)) ^ binary.BigEndian.Uint16(mask[:2])
	out := make([]byte, 2, 2+len(box))
	binary.BigEndian.PutUint16(out, l)
	return append(out, box...)
}

// Ctr is the counter the next frame will be sealed with.
func (e *Encoder) Ctr() uint64 { return e.ctr }

// SealBox seals one frame body under a key, nonce prefix and counter of the
// caller's choosing (what an attacker who does not know the session's can do).
func SealBox(key *[32]byte, prefix *[16]byte, ctr uint64, payload []byte) []byte {
	var n [24]byte
	copy(n[:], prefix[:])
	binary.BigEndian.PutUint64(n[16:], ctr)
	return secretbox.Seal(nil, payload, &n, key)
}

type Decoder struct {
	key     [32]byte
	prefix  [16]byte
	ctr     uint64
	drbg    *Drbg
	nextLen int
}

func NewDecoder(km []byte) *Decoder {
	d := &Decoder{ctr: 1}
	copy(d.key[:], km[:32])
	copy(d.prefix[:], km[32:48])
	d.drbg = NewDrbg(km[48:72])
	return d
}

var ErrNeedMore = errors.New("obfs4ref: need more data")
var ErrBadFrame = errors.New("obfs4ref: frame does not authenticate")
var ErrBadLength = errors.New("obfs4ref: frame length out of range")

// Decode consumes one frame from buf.
func (d *Decoder) Decode(buf *bytes.Buffer) ([]byte, error) {
	if d.nextLen == 0 {
		if buf.Len() < 2 {
			return nil, ErrNeedMore
		}
		var lb [2]byte
		buf.Read(lb[:])
		mask := d.drbg.NextBlock()
		d.nextLen = int(binary.BigEndian.Uint16(lb[:]) ^ binary.BigEndian.Uint16(mask[:2]))
		if d.nextLen < 16 || d.nextLen > MaxSegment-2 {
			return nil, ErrBadLength
		}
	}
	if buf.Len() < d.nextLen {
		return nil, ErrNeedMore
	}
	box := make([]byte, d.nextLen)
	buf.Read(box)
	var n [24]byte
	copy(n[:], d.prefix[:])
	binary.BigEndian.PutUint64(n[16:], d.ctr)
	out, ok := secretbox.Open(nil, box, &n, &d.key)
	if !ok {
		return nil, ErrBadFrame
	}
	d.ctr++
	d.nextLen = 0
	if out == nil {
		out = []byte{}
	}
	return out, nil
}

// ---- packets -----------------------------------------------------------------------------------

func MakePacket(typ byte, data []byte, pad int) []byte {
	if len(data)+pad > MaxPacketPayload {
		panic("obfs4ref: oversize packet")
	}
	p := make([]byte, 3+len(data)+pad)
	p[0] = typ
	binary.BigEndian.PutUint16(p[1:], uint16(len(data)))
	copy(p[3:], data)
	return p
}

type Packet struct {
	Type    byte
	Payload []byte
	Padding []byte
}

func ParsePacket(b []byte) (Packet, error) {
	if len(b) < 3 {
		return Packet{}, fmt.Errorf("packet of %d bytes", len(b))
	}
	l := int(binary.BigEndian.Uint16(b[1:]))
	if l > len(b)-3 {
		return Packet{}, fmt.Errorf("packet payload length %d exceeds frame payload %d", l, len(b)-3)
	}
	return Packet{Type: b[0], Payload: b[3 : 3+l], Padding: b[3+l:]}, nil
}

// ---- handshake -----------------------------------------------------------------------------------

func markMac(key []byte, parts ...[]byte) []byte {
	h := hmac.New(sha256.New, key)
	for _, p := range parts {
		h.Write(p)
	}
	return h.Sum(nil)[:16]
}

func hmacKey(ident Identity) []byte {
	return append(append([]byte{}, ident.Pub[:]...), ident.NodeID[:]...)
}

// Mark computes M_C / M_S for a representative from public information.
func Mark(ident Identity, rep []byte) []byte { return markMac(hmacKey(ident), rep) }

func HourString(h int64) []byte { return []byte(strconv.FormatInt(h, 10)) }

// ClientRequest builds X' | P_C | M_C | MAC_C.
func ClientRequest(ident Identity, eph *Keypair, pad []byte, hour int64) []byte {
	key := hmacKey(ident)
	var b []byte
	b = append(b, eph.Rep[:]...)
	b = append(b, pad...)
	b = append(b, markMac(key, eph.Rep[:])...)
	b = append(b, markMac(key, b, HourString(hour))...)
	return b
}

var ErrNoMark = errors.New("obfs4ref: mark not found")
var ErrBadMAC = errors.New("obfs4ref: handshake MAC mismatch")
var ErrBadAuth = errors.New("obfs4ref: ntor AUTH mismatch")
var ErrNtor = errors.New("obfs4ref: ntor failed (degenerate key)")
var ErrLayout = errors.New("obfs4ref: handshake layout violation")

// ServerResponse describes a parsed server handshake.
type ServerResponse struct {
	Y       [32]byte // decoded ephemeral public key
	YRep    [32]byte
	Auth    [32]byte
	PadLen  int
	Length  int // bytes consumed: Y'|AUTH|P_S|M_S|MAC_S
	KeySeed [32]byte
}

// ParseServerResponse looks for M_S/MAC_S in buf and completes ntor.  It
// returns ErrNeedMore while the response may still be incomplete.
func ParseServerResponse(ident Identity, eph *Keypair, hour int64, buf []byte) (*ServerResponse, error) {
	if len(buf) < RepLength+AuthLength+MarkLength+MacLength {
		return nil, ErrNeedMore
	}
	key := hmacKey(ident)
	var r ServerResponse
	copy(r.YRep[:], buf[:32])
	copy(r.Auth[:], buf[32:64])
	mark := markMac(key, r.YRep[:])
	limit := len(buf)
	if limit > MaxHandshakeLength {
		limit = MaxHandshakeLength
	}
	pos := bytes.Index(buf[64:limit], mark)
	if pos < 0 {
		if len(buf) >= MaxHandshakeLength {
			return nil, ErrNoMark
		}
		return nil, ErrNeedMore
	}
	pos += 64
	if pos+32 > limit {
		if len(buf) >= MaxHandshakeLength {
			return nil, ErrNoMark
		}
		return nil, ErrNeedMore
	}
	mac := markMac(key, buf[:pos+16], HourString(hour))
	if !hmac.Equal(mac, buf[pos+16:pos+32]) {
		return nil, ErrBadMAC
	}
	r.PadLen = pos - 64
	r.Length = pos + 32
	r.Y = RepToPublic(r.YRep)
	seed, auth, ok := NtorClient(eph, r.Y, ident.Pub, ident.NodeID)
	if !ok {
		return nil, ErrNtor
	}
	if !hmac.Equal(auth[:], r.Auth[:]) {
		return nil, ErrBadAuth
	}
	r.KeySeed = seed
	return &r, nil
}

// ClientRequestInfo describes a parsed client handshake.
type ClientRequestInfo struct {
	X      [32]byte
	XRep   [32]byte
	PadLen int
	Hour   int64 // the hour the client stamped (one of now-1, now, now+1)
	MAC    []byte
}

// ParseClientRequest validates a complete client handshake against the
// server's clock hour.
func ParseClientRequest(ident Identity, nowHour int64, buf []byte) (*ClientRequestInfo, error) {
	if len(buf) < RepLength+ClientMinPad+MarkLength+MacLength {
		return nil, ErrNeedMore
	}
	if len(buf) > MaxHandshakeLength {
		return nil, ErrLayout
	}
	key := hmacKey(ident)
	var r ClientRequestInfo
	copy(r.XRep[:], buf[:32])
	mark := markMac(key, r.XRep[:])
	pos := len(buf) - 32
	if !hmac.Equal(buf[pos:pos+16], mark) {
		return nil, ErrNeedMore
	}
	r.PadLen = pos - 32
	if r.PadLen < ClientMinPad || r.PadLen > ClientMaxPad {
		return nil, ErrLayout
	}
	found := false
	for _, h := range []int64{nowHour, nowHour - 1, nowHour + 1} {
		mac := markMac(key, buf[:pos+16], HourString(h))
		if hmac.Equal(mac, buf[pos+16:]) {
			found = true
			r.Hour = h
			r.MAC = mac
		}
	}
	if !found {
		return nil, ErrBadMAC
	}
	r.X = RepToPublic(r.XRep)
	return &r, nil
}

// ServerReply builds Y' | AUTH | P_S | M_S | MAC_S for a parsed request.
func ServerReply(ident Identity, eph *Keypair, req *ClientRequestInfo, pad []byte) (resp []byte, keySeed [32]byte, ok bool) {
	seed, auth, ok := NtorServer(req.X, eph, ident)
	key := hmacKey(ident)
	var b []byte
	b = append(b, eph.Rep[:]...)
	b = append(b, auth[:]...)
	b = append(b, pad...)
	b = append(b, markMac(key, eph.Rep[:])...)
	b = append(b, markMac(key, b, HourString(req.Hour))...)
	return b, seed, ok
}

// Session holds the two directions of an established connection.
type Session struct {
	Enc *Encoder
	Dec *Decoder
	in  bytes.Buffer
}

// NewSession splits the 144 bytes of key material: the first 72 bytes key
// the client->server direction.
func NewSession(keySeed []byte, isClient bool) *Session {
	okm := KDF(keySeed, KeyMaterialLength)
	if isClient {
		return &Session{Enc: NewEncoder(okm[:72]), Dec: NewDecoder(okm[72:])}
	}
	return &Session{Enc: NewEncoder(okm[72:]), Dec: NewDecoder(okm[:72])}
}

// Feed appends received bytes and returns all packets that became complete.
func (s *Session) Feed(p []byte) ([]Packet, error) {
	s.in.Write(p)
	var out []Packet
	for {
		fr, err := s.Dec.Decode(&s.in)
		if err == ErrNeedMore {
			return out, nil
		}
		if err != nil {
			return out, err
		}
		pk, err := ParsePacket(fr)
		if err != nil {
			return out, err
		}
		out = append(out, pk)
	}
}

// Pending reports undecoded bytes.
func (s *Session) Pending() int { return s.in.Len() }

// Frame encodes one packet as one frame.
func (s *Session) Frame(typ byte, data []byte, pad int) []byte {
	return s.Enc.Encode(MakePacket(typ, data, pad))
}

// ---- seeded distributions (value set only) ------------------------------------------------

// Table returns the value table of the seeded distribution over [min,max]:
// a permutation of the range from the generator (math/rand's Perm over the
// Drbg source), cut to 1..100 entries.
func Table(seed []byte, min, max int, r interface {
	Perm(int) []int
	Intn(int) int
}) []int {
	n := max + 1 - min
	perm := r.Perm(n)
	if n > 100 {
		n = 100
	}
	if n < 1 {
		n = 1
	}
	k := r.Intn(n) + 1
	out := make([]int, k)
	for i := 0; i < k; i++ {
		out[i] = min + perm[i]
	}
	return out
}

// TableWithWeights continues the same generator after Table to obtain the
// weights: uniform weights are one Float64 per value; "biased" (ScrambleSuit
// style) weights give value i the fraction Float64() of the probability mass
// still unassigned.  Returned probabilities are normalised.
func TableWithWeights(seed []byte, min, max int, biased bool, r interface {
	Perm(int) []int
	Intn(int) int
	Float64() float64
}) (values []int, probs []float64) {
	values = Table(seed, min, max, r)
	w := make([]float64, len(values))
	if biased {
		cum := 0.0
		for i := range w {
			p := (1.0 - cum) * r.Float64()
			w[i] = p
			cum += p
		}
	} else {
		for i := range w {
			w[i] = r.Float64()
		}
	}
	sum := 0.0
	for _, x := range w {
		sum += x
	}
	probs = make([]float64, len(w))
	for i, x := range w {
		probs[i] = x / sum
	}
	return values, probs
}
