// Package obfs4ref is an independent implementation of the deployed obfs4
// wire format, written from the property statements (C06) and the protocol
// document, using only the Go standard library and x/crypto primitives
// (X25519, secretbox, HKDF).  It never imports a package of the repository
// under test.  Where doc/obfs4-spec.txt and the deployed format disagree the
// property text is the spec of record:
//   - okm[0:72] keys the client->server direction (the document says the
//     opposite),
//   - the client pads with at least 77 bytes (the document says 85),
//   - the secretbox nonce is a 16-byte prefix plus an 8-byte big-endian counter
//     starting at 1 (the document says "24 byte prefix"),
//   - the ntor transcript is the deployed variant: B appears twice at the head
//     of the common suffix and the node ID comes last.
package obfs4ref

import (
	"math/big"
)

// Elligator 2 for Curve25519, Montgomery form, with math/big.

var (
	feP    = new(big.Int).Sub(new(big.Int).Lsh(big.NewInt(1), 255), big.NewInt(19))
	feA    = big.NewInt(486662)
	feOne  = big.NewInt(1)
	feTwo  = big.NewInt(2)
	feHalf = new(big.Int).Rsh(new(big.Int).Sub(feP, feOne), 1) // (p-1)/2
	// sqrt(-1) mod p
	feSqrtM1 = new(big.Int).Exp(feTwo, new(big.Int).Rsh(new(big.Int).Sub(feP, feOne), 2), feP)
)

func mod(x *big.Int) *big.Int { return x.Mod(x, feP) }

func feFromLE(b []byte) *big.Int {
	var be [32]byte
	for i := 0; i < 32; i++ {
		be[31-i] = b[i]
	}
	return new(big.Int).SetBytes(be[:])
}

func feToLE(x *big.Int) [32]byte {
	var out [32]byte
	be := new(big.Int).Mod(x, feP).Bytes()
	for i, v := range be {
		out[len(be)-1-i] = v
	}
	return out
}

func inv(x *big.Int) *big.Int { return new(big.Int).ModInverse(x, feP) }

// chi is the Legendre symbol: 1, p-1 (i.e. -1) or 0.
func isSquare(x *big.Int) bool {
	x = new(big.Int).Mod(x, feP)
	if x.Sign() == 0 {
		return true
	}
	e := new(big.Int).Exp(x, feHalf, feP)
	return e.Cmp(feOne) == 0
}

// fsqrt returns a square root of x mod p (p = 5 mod 8), if one exists.
func fsqrt(x *big.Int) (*big.Int, bool) {
	x = new(big.Int).Mod(x, feP)
	if x.Sign() == 0 {
		return new(big.Int), true
	}
	// candidate = x^((p+3)/8)
	e := new(big.Int).Add(feP, big.NewInt(3))
	e.Rsh(e, 3)
	r := new(big.Int).Exp(x, e, feP)
	chk := new(big.Int).Mul(r, r)
	mod(chk)
	if chk.Cmp(x) == 0 {
		return r, true
	}
	r.Mul(r, feSqrtM1)
	mod(r)
	chk.Mul(r, r)
	mod(chk)
	if chk.Cmp(x) == 0 {
		return r, true
	}
	return nil, false
}

// curveRHS computes u^3 + A u^2 + u.
func curveRHS(u *big.Int) *big.Int {
	u2 := new(big.Int).Mul(u, u)
	mod(u2)
	u3 := new(big.Int).Mul(u2, u)
	t := new(big.Int).Mul(feA, u2)
	t.Add(t, u3)
	t.Add(t, u)
	return mod(t)
}

// RepToPublic is the forward map: any 32-byte string (top two bits ignored)
// to a Montgomery u-coordinate.
func RepToPublic(rep [32]byte) [32]byte {
	rep[31] &= 0x3f
	r := feFromLE(rep[:])
	// v = -A / (1 + 2 r^2)
	d := new(big.Int).Mul(r, r)
	d.Mul(d, feTwo)
	d.Add(d, feOne)
	mod(d)
	v := new(big.Int).Mul(new(big.Int).Neg(feA), inv(d))
	mod(v)
	if isSquare(curveRHS(v)) {
		return feToLE(v)
	}
	// u = -v - A
	u := new(big.Int).Neg(v)
	u.Sub(u, feA)
	mod(u)
	return feToLE(u)
}

// PublicToRep is the inverse map.  choice selects which of the two
// pre-image branches is used, topBits (0..3) fills the two unused bits.
func PublicToRep(pub [32]byte, choice int, topBits byte) ([32]byte, bool) {
	var out [32]byte
	u := feFromLE(pub[:])
	u.Mod(u, feP)
	uA := new(big.Int).Add(u, feA)
	mod(uA)
	if u.Sign() == 0 || uA.Sign() == 0 {
		return out, false
	}
	// representable iff -2u(u+A) is a square
	t := new(big.Int).Mul(u, uA)
	t.Mul(t, big.NewInt(-2))
	mod(t)
	if !isSquare(t) {
		return out, false
	}
	var num, den *big.Int
	if choice&1 == 0 {
		// branch e=+1: r^2 = -(u+A)/(2u)
		num = new(big.Int).Neg(uA)
		den = new(big.Int).Mul(feTwo, u)
	} else {
		// branch e=-1: r^2 = -u/(2(u+A))
		num = new(big.Int).Neg(u)
		den = new(big.Int).Mul(feTwo, uA)
	}
	q := new(big.Int).Mul(mod(num), inv(mod(den)))
	mod(q)
	r, ok := fsqrt(q)
	if !ok {
		return out, false
	}
	if r.Cmp(feHalf) > 0 {
		r.Sub(feP, r)
	}
	out = feToLE(r)
	out[31] |= (topBits & 3) << 6
	// self-check: forward(inverse(u)) == u
	if RepToPublic(out) != feToLE(u) {
		return out, false
	}
	return out, true
}

// OnCurve reports whether u is the x-coordinate of a point on Curve25519
// (as opposed to its twist).
func OnCurve(pub [32]byte) bool {
	u := feFromLE(pub[:])
	u.Mod(u, feP)
	return isSquare(curveRHS(u))
}

// LowOrderU lists the u-coordinates of the points of order 1, 2, 4, 8 on the
// curve (and twist) that make X25519 return all-zero.
func LowOrderU() [][32]byte {
	hexes := []string{
		"0000000000000000000000000000000000000000000000000000000000000000",
		"0100000000000000000000000000000000000000000000000000000000000000",
		"e0eb7a7c3b41b8ae1656e3faf19fc46ada098deb9c32b1fd866205165f49b800",
		"5f9c95bca3508c24b1d0b1559c83ef5b04445cc4581c8e86d8224eddd09f1157",
		"ecffffffffffffffffffffffffffffffffffffffffffffffffffffffffffff7f",
	}
	var out [][32]byte
	for _, h := range hexes {
		var b [32]byte
		for i := 0; i < 32; i++ {
			var v byte
			for j := 0; j < 2; j++ {
				c := h[2*i+j]
				v <<= 4
				switch {
				case c >= '0' && c <= '9':
					v |= c - '0'
				default:
					v |= c - 'a' + 10
				}
			}
			b[i] = v
		}
		out = append(out, b)
	}
	return out
}
