// Package obfsref holds independent implementations of obfs2 and obfs3
// (both roles), written from the protocol specifications with the standard
// library only.  They never import a package of the repository under test.
package obfsref

import (
	"bytes"
	"crypto/aes"
	"crypto/cipher"
	"crypto/hmac"
	"crypto/sha256"
	"errors"
	"io"
	"math/big"
)

// RFC 3526 1536-bit MODP group (group 5), generator 2.
var modp, _ = new(big.Int).SetString(
	"FFFFFFFFFFFFFFFFC90FDAA22168C234C4C6628B80DC1CD129024E088A67CC74020BBEA63B139B22514A08798E3404DD"+
		"EF9519B3CD3A431B302B0A6DF25F14374FE1356D6D51C245E485B576625E7EC6F44C42E9A637ED6B0BFF5CB6F406B7ED"+
		"EE386BFB5A899FA5AE9F24117C4B1FE649286651ECE45B3DC2007CB8A163BF0598DA48361C55D39A69163FA8FD24CF5F"+
		"83655D23DCA3AD961C62F356208552BB9ED529077096966D670C354E4ABC9804F1746C08CA237327FFFFFFFFFFFFFFFF", 16)

const (
	UDHSize       = 192
	O3MaxPadding  = 8194
	O3HalfPadding = O3MaxPadding / 2
	O3MagicLen    = 32
	o3InitData    = "Initiator obfuscated data"
	o3RespData    = "Responder obfuscated data"
	o3InitMagic   = "Initiator magic"
	o3RespMagic   = "Responder magic"
)

// UDH is a UniformDH key: x is even; the wire form is g^x or p - g^x.
type UDH struct {
	x    *big.Int
	Wire []byte // 192 bytes
	Alt  bool   // p - X was sent
}

// NewUDH builds a key from 192 private bytes; sendAlt chooses p-X.
func NewUDH(priv []byte, sendAlt bool) *UDH {
	x := new(big.Int).SetBytes(priv)
	x.SetBit(x, 0, 0)
	X := new(big.Int).Exp(big.NewInt(2), x, modp)
	if sendAlt {
		X.Sub(modp, X)
	}
	k := &UDH{x: x, Alt: sendAlt, Wire: make([]byte, UDHSize)}
	X.FillBytes(k.Wire)
	return k
}

// Shared computes the 192-byte shared secret from the peer's wire key.
func (k *UDH) Shared(peer []byte) []byte {
	Y := new(big.Int).SetBytes(peer)
	s := new(big.Int).Exp(Y, k.x, modp)
	out := make([]byte, UDHSize)
	s.FillBytes(out)
	return out
}

func hmac256(key []byte, msg string) []byte {
	h := hmac.New(sha256.New, key)
	h.Write([]byte(msg))
	return h.Sum(nil)
}

// O3 is one side of an obfs3 session after the key exchange.
type O3 struct {
	Initiator bool
	tx, rx    cipher.Stream
	txMagic   []byte
	rxMagic   []byte
	sentMagic bool
	gotMagic  bool
	scan      []byte // bytes received after the peer key, before the magic was found
	Shared    []byte
	// PeerPadding is the number of bytes that preceded the peer's magic.
	PeerPadding int
}

func ctr(secret []byte) cipher.Stream {
	b, err := aes.NewCipher(secret[:16])
	if err != nil {
		panic(err)
	}
	return cipher.NewCTR(b, secret[16:32])
}

func NewO3(initiator bool, key *UDH, peerWire []byte) *O3 {
	s := key.Shared(peerWire)
	o := &O3{Initiator: initiator, Shared: s}
	is, rs := ctr(hmac256(s, o3InitData)), ctr(hmac256(s, o3RespData))
	im, rm := hmac256(s, o3InitMagic), hmac256(s, o3RespMagic)
	if initiator {
		o.tx, o.rx, o.txMagic, o.rxMagic = is, rs, im, rm
	} else {
		o.tx, o.rx, o.txMagic, o.rxMagic = rs, is, rm, im
	}
	return o
}

// Send returns the wire bytes for data; the first call is prefixed with
// pad2 random-looking bytes (from pad) and the magic.
func (o *O3) Send(data []byte, pad []byte) []byte {
	var out []byte
	if !o.sentMagic {
		o.sentMagic = true
		out = append(out, pad...)
		out = append(out, o.txMagic...)
	}
	ct := make([]byte, len(data))
	o.tx.XORKeyStream(ct, data)
	return append(out, ct...)
}

var ErrO3NoMagic = errors.New("obfsref: no magic within MAX_PADDING")

// Recv consumes wire bytes that follow the peer's public key and returns the
// plaintext that became available.
func (o *O3) Recv(wire []byte) ([]byte, error) {
	if !o.gotMagic {
		o.scan = append(o.scan, wire...)
		pos := bytes.Index(o.scan, o.rxMagic)
		if pos < 0 {
			if len(o.scan) >= O3MaxPadding+O3MagicLen {
				return nil, ErrO3NoMagic
			}
			return nil, nil
		}
		if pos > O3MaxPadding {
			return nil, ErrO3NoMagic
		}
		o.PeerPadding = pos
		o.gotMagic = true
		wire = o.scan[pos+O3MagicLen:]
		o.scan = nil
	}
	pt := make([]byte, len(wire))
	o.rx.XORKeyStream(pt, wire)
	return pt, nil
}

func (o *O3) GotMagic() bool { return o.gotMagic }

// ReadKey reads the peer's 192-byte key from r.
func ReadKey(r io.Reader) ([]byte, error) {
	k := make([]byte, UDHSize)
	_, err := io.ReadFull(r, k)
	return k, err
}
