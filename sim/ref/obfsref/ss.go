package obfsref

import (
	"bytes"
	"crypto/aes"
	"crypto/cipher"
	"crypto/hmac"
	"crypto/sha256"
	"encoding/binary"
	"errors"
	"strconv"
)

// A ScrambleSuit *server* (UniformDH and session-ticket handshakes, packet
// layer, NewTicket / PrngSeed packets), following the published protocol:
//
//	client UniformDH request:  X | P_C | M_C | MAC_C
//	    M_C   = HMAC-SHA256-128(k_B, X)
//	    MAC_C = HMAC-SHA256-128(k_B, X | P_C | M_C | E)      E = decimal epoch hours
//	server reply:              Y | P_S | M_S | MAC_S          (same construction)
//	master key k_t = SHA256(UniformDH shared secret); 144 bytes = HKDF-Expand(k_t):
//	    [0:32] c->s AES key, [32:40] c->s CTR prefix, [40:72] s->c AES key,
//	    [72:80] s->c CTR prefix, [80:112] c->s HMAC key, [112:144] s->c HMAC key
//	AES-CTR counter block = prefix | 64-bit big-endian counter starting at 1
//	packet: MAC(16) | E(total len(2) | payload len(2) | flags(1) | payload | padding)
//	    MAC over the ciphertext; flags 1 payload, 2 new ticket, 4 PRNG seed
//	ticket request:            T(112) | P | M | MAC  keyed with the c->s HMAC key
//	    derived from the ticket's master key; no server reply.
//
// No ScrambleSuit specification is available offline; this follows the
// protocol as published and is the least independent of the references.

const (
	SSMacLen        = 16
	SSMaxHandshake  = 1532
	SSMaxPad        = 1308
	SSTicketLen     = 112
	SSTicketKeyLen  = 32
	SSMaxPayload    = 1427
	SSHdrLen        = 5
	SSFlagPayload   = 1
	SSFlagNewTicket = 2
	SSFlagPrngSeed  = 4
	SSSecretLen     = 20
)

func hkdfExpand(prk []byte, n int) []byte {
	var out, t []byte
	for i := byte(1); len(out) < n; i++ {
		h := hmac.New(sha256.New, prk)
		h.Write(t)
		h.Write([]byte{i})
		t = h.Sum(nil)
		out = append(out, t...)
	}
	return out[:n]
}

type ssDir struct {
	s   cipher.Stream
	mac []byte
}

func newSSDir(key, prefix, mac []byte) *ssDir {
	b, err := aes.NewCipher(key)
	if err != nil {
		panic(err)
	}
	iv := append(append([]byte{}, prefix...), 0, 0, 0, 0, 0, 0, 0, 1)
	return &ssDir{s: cipher.NewCTR(b, iv), mac: append([]byte{}, mac...)}
}

// SS is an established server-side session.
type SS struct {
	tx, rx *ssDir
	in     bytes.Buffer
	// pending header state
	hdr      []byte
	mac      []byte
	rawHdr   []byte
	total    int
	payload  int
	ByTicket bool
}

func newSSServer(master []byte) *SS {
	okm := hkdfExpand(master, 144)
	return &SS{
		rx: newSSDir(okm[0:32], okm[32:40], okm[80:112]),
		tx: newSSDir(okm[40:72], okm[72:80], okm[112:144]),
	}
}

func h128(key []byte, parts ...[]byte) []byte {
	h := hmac.New(sha256.New, key)
	for _, p := range parts {
		h.Write(p)
	}
	return h.Sum(nil)[:16]
}

var ErrSSNeedMore = errors.New("obfsref: scramblesuit handshake incomplete")
var ErrSSBadMAC = errors.New("obfsref: scramblesuit handshake MAC mismatch")
var ErrSSNoMark = errors.New("obfsref: scramblesuit mark not found")

// SSTicket is a ticket the server issued.
type SSTicket struct {
	Key    []byte // 32-byte master key
	Ticket []byte // 112 opaque bytes
	Uses   int
}

// SSServer is the server's long-term state.
type SSServer struct {
	Secret  []byte // k_B
	Tickets []*SSTicket
}

// SSHandshakeResult describes an accepted client handshake.
type SSHandshakeResult struct {
	Session  *SS
	Consumed int
	Reply    []byte // nil for a ticket handshake
	Ticket   *SSTicket
	PadLen   int
}

// Accept inspects the bytes received so far.  nowHour is the server clock;
// key/pad are the server's UniformDH key and reply padding for this
// connection.
func (sv *SSServer) Accept(buf []byte, nowHour int64, key *UDH, pad []byte) (*SSHandshakeResult, error) {
	// session ticket?
	if len(buf) >= SSTicketLen {
		for _, tk := range sv.Tickets {
			if !bytes.Equal(buf[:SSTicketLen], tk.Ticket) {
				continue
			}
			okm := hkdfExpand(tk.Key, 144)
			macKey := okm[80:112]
			mark := h128(macKey, tk.Ticket)
			pos := bytes.Index(buf[SSTicketLen:], mark)
			if pos < 0 || len(buf) < SSTicketLen+pos+32 {
				if len(buf) >= SSMaxHandshake {
					return nil, ErrSSNoMark
				}
				return nil, ErrSSNeedMore
			}
			pos += SSTicketLen
			ok := false
			for _, h := range []int64{nowHour, nowHour - 1, nowHour + 1} {
				if hmac.Equal(h128(macKey, buf[:pos+16], []byte(strconv.FormatInt(h, 10))), buf[pos+16:pos+32]) {
					ok = true
				}
			}
			if !ok {
				return nil, ErrSSBadMAC
			}
			tk.Uses++
			s := newSSServer(tk.Key)
			s.ByTicket = true
			return &SSHandshakeResult{Session: s, Consumed: pos + 32, Ticket: tk, PadLen: pos - SSTicketLen}, nil
		}
	}
	// UniformDH
	if len(buf) < UDHSize+32 {
		return nil, ErrSSNeedMore
	}
	X := buf[:UDHSize]
	mark := h128(sv.Secret, X)
	limit := len(buf)
	if limit > SSMaxHandshake {
		limit = SSMaxHandshake
	}
	pos := bytes.Index(buf[UDHSize:limit], mark)
	if pos < 0 || limit < UDHSize+pos+32 {
		if len(buf) >= SSMaxHandshake {
			return nil, ErrSSNoMark
		}
		return nil, ErrSSNeedMore
	}
	pos += UDHSize
	ok := false
	var hour int64
	for _, h := range []int64{nowHour, nowHour - 1, nowHour + 1} {
		if hmac.Equal(h128(sv.Secret, buf[:pos+16], []byte(strconv.FormatInt(h, 10))), buf[pos+16:pos+32]) {
			ok, hour = true, h
		}
	}
	if !ok {
		return nil, ErrSSBadMAC
	}
	shared := key.Shared(X)
	master := sha256.Sum256(shared)
	var reply []byte
	reply = append(reply, key.Wire...)
	reply = append(reply, pad...)
	reply = append(reply, h128(sv.Secret, key.Wire)...)
	reply = append(reply, h128(sv.Secret, reply, []byte(strconv.FormatInt(hour, 10)))...)
	return &SSHandshakeResult{Session: newSSServer(master[:]), Consumed: pos + 32, Reply: reply, PadLen: pos - UDHSize}, nil
}

// Packet builds one protocol packet.
func (s *SS) Packet(flags byte, payload []byte, pad int) []byte {
	body := make([]byte, SSHdrLen+len(payload)+pad)
	binary.BigEndian.PutUint16(body[0:], uint16(len(payload)+pad))
	binary.BigEndian.PutUint16(body[2:], uint16(len(payload)))
	body[4] = flags
	copy(body[5:], payload)
	s.tx.s.XORKeyStream(body, body)
	return append(h128(s.tx.mac, body), body...)
}

type SSPacket struct {
	Flags   byte
	Payload []byte
	PadLen  int
}

var ErrSSPacket = errors.New("obfsref: scramblesuit packet does not authenticate")

// Feed decodes the client's packets.
func (s *SS) Feed(p []byte) ([]SSPacket, error) {
	s.in.Write(p)
	var out []SSPacket
	for {
		if s.mac == nil {
			if s.in.Len() < SSMacLen {
				return out, nil
			}
			s.mac = make([]byte, SSMacLen)
			s.in.Read(s.mac)
		}
		if s.hdr == nil {
			if s.in.Len() < SSHdrLen {
				return out, nil
			}
			s.rawHdr = make([]byte, SSHdrLen)
			s.in.Read(s.rawHdr)
			s.hdr = make([]byte, SSHdrLen)
			s.rx.s.XORKeyStream(s.hdr, s.rawHdr)
			s.total = int(binary.BigEndian.Uint16(s.hdr[0:]))
			s.payload = int(binary.BigEndian.Uint16(s.hdr[2:]))
			if s.payload > s.total || s.total > SSMaxPayload {
				return out, ErrSSPacket
			}
		}
		if s.in.Len() < s.total {
			return out, nil
		}
		raw := make([]byte, s.total)
		s.in.Read(raw)
		if !hmac.Equal(h128(s.rx.mac, s.rawHdr, raw), s.mac) {
			return out, ErrSSPacket
		}
		body := make([]byte, s.total)
		s.rx.s.XORKeyStream(body, raw)
		for _, b := range body[s.payload:] {
			_ = b // padding content is unspecified
		}
		out = append(out, SSPacket{Flags: s.hdr[4], Payload: body[:s.payload], PadLen: s.total - s.payload})
		s.mac, s.hdr = nil, nil
	}
}

// NewSSServerForTest exposes the session constructor.
func NewSSServerForTest(master []byte) *SS { return newSSServer(master) }

// PacketRaw seals a packet whose header fields are whatever the caller says
// (for peers that hold the keys but do not follow the packet format).  body is
// what follows the 5-byte header.
func (s *SS) PacketRaw(totalField, payloadField int, flags byte, body []byte) []byte {
	b := make([]byte, SSHdrLen+len(body))
	binary.BigEndian.PutUint16(b[0:], uint16(totalField))
	binary.BigEndian.PutUint16(b[2:], uint16(payloadField))
	b[4] = flags
	copy(b[5:], body)
	s.tx.s.XORKeyStream(b, b)
	return append(h128(s.tx.mac, b), b...)
}
