package obfsref

import (
	"crypto/cipher"
	"crypto/sha256"
	"encoding/binary"
	"errors"
)

const (
	O2Magic      = 0x2BF5CA7E
	O2MaxPadding = 8192
	O2SeedLen    = 16
	o2InitPad    = "Initiator obfuscation padding"
	o2RespPad    = "Responder obfuscation padding"
	o2InitData   = "Initiator obfuscated data"
	o2RespData   = "Responder obfuscated data"
)

// mac is MAC(s, x) = SHA256(s | x | s).
func o2mac(s string, x []byte) []byte {
	h := sha256.New()
	h.Write([]byte(s))
	h.Write(x)
	h.Write([]byte(s))
	return h.Sum(nil)
}

// O2Hello builds SEED | E(PAD_KEY, MAGIC | PADLEN | padding).  magic and
// padLenField can be overridden to craft invalid handshakes.
func O2Hello(initiator bool, seed []byte, pad []byte, magic uint32, padLenField uint32) []byte {
	label := o2RespPad
	if initiator {
		label = o2InitPad
	}
	st := ctr(o2mac(label, seed))
	pt := make([]byte, 8+len(pad))
	binary.BigEndian.PutUint32(pt[0:], magic)
	binary.BigEndian.PutUint32(pt[4:], padLenField)
	copy(pt[8:], pad)
	ct := make([]byte, len(pt))
	st.XORKeyStream(ct, pt)
	return append(append([]byte{}, seed...), ct...)
}

// O2 is an established obfs2 session.
type O2 struct {
	tx, rx cipher.Stream
}

var ErrO2Magic = errors.New("obfsref: bad obfs2 magic")
var ErrO2PadLen = errors.New("obfsref: obfs2 padding length too large")

// O2ParseHello decrypts the peer's header (seed + 8 bytes) and returns the
// announced padding length.
func O2ParseHello(peerIsInitiator bool, hdr []byte) (seed []byte, padLen uint32, err error) {
	label := o2RespPad
	if peerIsInitiator {
		label = o2InitPad
	}
	seed = hdr[:O2SeedLen]
	st := ctr(o2mac(label, seed))
	pt := make([]byte, 8)
	st.XORKeyStream(pt, hdr[O2SeedLen:O2SeedLen+8])
	if binary.BigEndian.Uint32(pt[0:]) != O2Magic {
		return seed, 0, ErrO2Magic
	}
	padLen = binary.BigEndian.Uint32(pt[4:])
	if padLen > O2MaxPadding {
		return seed, padLen, ErrO2PadLen
	}
	return seed, padLen, nil
}

func NewO2(initiator bool, initSeed, respSeed []byte) *O2 {
	comb := append(append([]byte{}, initSeed...), respSeed...)
	is, rs := ctr(o2mac(o2InitData, comb)), ctr(o2mac(o2RespData, comb))
	if initiator {
		return &O2{tx: is, rx: rs}
	}
	return &O2{tx: rs, rx: is}
}

func (o *O2) Send(data []byte) []byte {
	ct := make([]byte, len(data))
	o.tx.XORKeyStream(ct, data)
	return ct
}

func (o *O2) Recv(wire []byte) []byte {
	pt := make([]byte, len(wire))
	o.rx.XORKeyStream(pt, wire)
	return pt
}
