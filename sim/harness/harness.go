// Package harness is the in-process runner shared by all engines: it turns
// (property, seed, run) or a replay tape into one synctest bubble, collects
// the verdict, shrinks failing tapes, writes replay files and the per-worker
// coverage report the Python runner aggregates into evidence.
package harness

import (
	"crypto/rand"
	"encoding/json"
	"fmt"
	"hash/fnv"
	"io"
	"os"
	"path/filepath"
	"regexp"
	"runtime"
	"runtime/debug"
	"sort"
	"strconv"
	"strings"
	"sync"
	"sync/atomic"
	"testing"
	"testing/synctest"
	"time"

	"verifsim/sim"
	"verifsim/simnet"
	"verifsim/simrand"
	"verifsim/tape"
)

// Ctx is what a scenario gets.
type Ctx struct {
	S    *sim.Sim
	T    *tape.Tape
	Net  *simnet.Net
	Rand *simrand.Reader
	Seed uint64
	Run  uint64
	Tier string
	// Info describes the generated configuration (goes into samples/replays).
	Info map[string]interface{}
	// Reached: the run got to the phase the property talks about.
	Reached bool
	// Nontrivial: a split / interleaving / fault landed inside in-flight state.
	Nontrivial bool
	// Features are coverage tags (rare-branch probes) counted across runs.
	Features map[string]int64
	TB       *testing.T
	// Cases, when a run evaluates several distinct cases (e.g. one per crash
	// point), lists their identifiers; they are counted instead of the run's
	// event-log hash.
	Cases []string
	// Evals overrides the number of evaluations this run stands for.
	Evals int64
	atEnd []func()
}

// AtEnd registers a function to run after the run's teardown (all tasks
// unwound).
func (c *Ctx) AtEnd(f func()) { c.atEnd = append(c.atEnd, f) }

// Case records one evaluated case of this run.
func (c *Ctx) Case(id string) {
	h := fnv.New64a()
	h.Write([]byte(id))
	c.Cases = append(c.Cases, strconv.FormatUint(h.Sum64(), 16))
	c.Evals++
}

func (c *Ctx) Feature(name string) { c.Features[name]++ }

func (c *Ctx) Violate(class, format string, a ...interface{}) {
	c.S.Violate(class, fmt.Sprintf(format, a...))
}

type Prop struct {
	ID  string
	Run func(c *Ctx)
	// Variant is recorded in replay files ("B1" unwoven, "B2" woven).
	Variant string
}

// Env lets the engine install the entropy seam into packages verifsim cannot
// import.
type Env struct {
	SetEntropy func(r io.Reader) // nil restores
	// BeforeRun / AfterRun bracket every run outside the bubble.
	BeforeRun func()
}

type Result struct {
	Prop       string                 `json:"property"`
	Seed       uint64                 `json:"seed"`
	Run        uint64                 `json:"run"`
	Tape       []uint32               `json:"tape"`
	Violations []sim.Violation        `json:"violations,omitempty"`
	LogHash    string                 `json:"event_log_sha256"`
	Steps      uint64                 `json:"steps"`
	VTimeNs    int64                  `json:"vtime_ns"`
	Counters   map[string]int64       `json:"counters,omitempty"`
	Features   map[string]int64       `json:"features,omitempty"`
	Info       map[string]interface{} `json:"config,omitempty"`
	Reached    bool                   `json:"reached"`
	Nontrivial bool                   `json:"nontrivial"`
	Strategy   string                 `json:"strategy"`
	Trace      []string               `json:"trace,omitempty"`
	Leak       string                 `json:"leak,omitempty"`
	Harness    string                 `json:"harness_error,omitempty"`
	Exhausted  bool                   `json:"budget_exhausted,omitempty"`
	Cases      []string               `json:"-"`
	Evals      int64                  `json:"-"`
}

func (r *Result) Class() string {
	if len(r.Violations) == 0 {
		return ""
	}
	return r.Violations[0].Class
}

var curRun atomic.Value // string, for the watchdog
var runCounter atomic.Uint64

// RunOnce executes one simulated run.  vals == nil means search mode.
func RunOnce(t *testing.T, env *Env, p *Prop, seed, run uint64, vals []uint32, replay bool, trace bool, tier string) (res *Result) {
	var tp *tape.Tape
	if replay {
		tp = tape.NewReplay(vals)
	} else {
		tp = tape.NewSearch(seed, run)
	}
	res = &Result{Prop: p.ID, Seed: seed, Run: run}
	sim.WallExpired.Store(false)
	sim.RunWallExtra.Store(0)
	curRun.Store(fmt.Sprintf("%s seed=%d run=%d #%d", p.ID, seed, run, runCounter.Add(1)))
	var ctx *Ctx
	func() {
		defer func() {
			if r := recover(); r != nil {
				msg := fmt.Sprint(r)
				if strings.Contains(msg, "deadlock") || strings.Contains(msg, "blocked goroutines remain") {
					res.Leak = msg + leakSummary()
					return
				}
				res.Harness = msg + "\n" + sim.TrimStack(debug.Stack())
			}
		}()
		synctest.Test(t, func(t *testing.T) {
			s := sim.New(tp)
			s.TraceOn = trace
			ctx = &Ctx{S: s, T: tp, Seed: seed, Run: run, Tier: tier, Info: map[string]interface{}{}, Features: map[string]int64{}, TB: t}
			ctx.Net = simnet.New(s)
			ctx.Rand = simrand.New(seed, run, s.EntropyNode)
			old := rand.Reader
			rand.Reader = ctx.Rand
			if env != nil && env.SetEntropy != nil {
				env.SetEntropy(ctx.Rand)
			}
			defer func() {
				sim.DisarmSelect()
				rand.Reader = old
				if env != nil && env.SetEntropy != nil {
					env.SetEntropy(nil)
				}
			}()
			func() {
				defer func() {
					if r := recover(); r != nil {
						// a panic on the scenario's own goroutine is harness trouble, never a verdict
						res.Harness = fmt.Sprintf("scenario root panicked: %v\n%s", r, sim.TrimStack(debug.Stack()))
					}
				}()
				p.Run(ctx)
			}()
			// teardown: close every link and let tasks unwind
			res.VTimeNs = int64(s.Now())
			ctx.Net.CloseAll()
			s.StopOnViolation = false
			exh := s.Exhausted
			s.MaxSteps += 100000
			s.Run(nil, time.Hour)
			s.Exhausted = exh
			for _, f := range ctx.atEnd {
				f()
			}
			if lt := s.LiveTasks(); len(lt) > 0 {
				res.Leak = "tasks still alive after teardown: " + strings.Join(lt, ",")
			}
		})
	}()
	if ctx != nil {
		s := ctx.S
		res.Tape = tp.Values()
		res.Violations = s.Violations
		res.LogHash = s.LogHash()
		res.Steps = s.Steps()
		res.Counters = s.Counters
		res.Features = ctx.Features
		res.Cases, res.Evals = ctx.Cases, ctx.Evals
		res.Info = ctx.Info
		res.Reached = ctx.Reached
		res.Nontrivial = ctx.Nontrivial
		res.Strategy = s.StrategyName()
		res.Trace = s.Trace
		res.Exhausted = s.Exhausted
	}
	return res
}

// leakSummary names where the goroutines that are still blocked inside a
// finished bubble are sitting (first frame of the code under test or net/http).
func leakSummary() string {
	buf := make([]byte, 1<<20)
	n := runtime.Stack(buf, true)
	seen := map[string]int{}
	for _, b := range strings.Split(string(buf[:n]), "\n\n") {
		if !strings.Contains(b, "synctest bubble") {
			continue
		}
		where := "?"
		for _, l := range strings.Split(b, "\n") {
			if strings.HasPrefix(l, "gitlab.com/yawning/obfs4.git/") && !strings.Contains(l, "zz_verif") || strings.HasPrefix(l, "net/http.") || strings.HasPrefix(l, "main.") {
				if i := strings.LastIndexByte(l, '('); i > 0 {
					l = l[:i]
				}
				where = strings.TrimPrefix(l, "gitlab.com/yawning/obfs4.git/")
				break
			}
		}
		if where == "?" {
			// no frame of the code under test: name the harness function instead
			for _, l := range strings.Split(b, "\n") {
				if strings.Contains(l, "zz_verif") && !strings.HasPrefix(l, "\t") {
					if i := strings.LastIndexByte(l, '('); i > 0 {
						l = l[:i]
					}
					where = "harness:" + l[strings.LastIndexByte(l, '/')+1:]
					break
				}
			}
		}
		seen[where]++
	}
	var parts []string
	for k, v := range seen {
		parts = append(parts, fmt.Sprintf("%s x%d", k, v))
	}
	sort.Strings(parts)
	return " [blocked: " + strings.Join(parts, ", ") + "]"
}

// ---- shrinking ------------------------------------------------------------------

// Shrink minimises a failing tape while the violation class persists.
func Shrink(try func(vals []uint32) *Result, orig *Result, maxTries int) (*Result, int) {
	class := orig.Class()
	best := orig
	tries := 0
	deadline := time.Now().Add(time.Duration(envU("VERIF_SHRINK_WALL_S", 90)) * time.Second)
	ok := func(vals []uint32) bool {
		if tries >= maxTries || time.Now().After(deadline) {
			tries = maxTries
			return false
		}
		tries++
		r := try(vals)
		if r.Class() == class && r.Harness == "" {
			// canonical form: what was actually consumed, trailing zeros cut
			best = r
			return true
		}
		return false
	}
	trim := func(v []uint32) []uint32 {
		n := len(v)
		for n > 0 && v[n-1] == 0 {
			n--
		}
		return append([]uint32(nil), v[:n]...)
	}
	cur := trim(best.Tape)
	improved := true
	for improved && tries < maxTries {
		improved = false
		// 1. truncate the tail (binary search for the shortest prefix)
		lo, hi := 0, len(cur)
		for lo < hi && tries < maxTries {
			mid := (lo + hi) / 2
			if ok(cur[:mid]) {
				hi = mid
			} else {
				lo = mid + 1
			}
		}
		if hi < len(cur) {
			cur = trim(cur[:hi])
			improved = true
		}
		// 2. zero blocks, 3. delete blocks
		for size := len(cur) / 2; size >= 1 && tries < maxTries; size /= 2 {
			for i := 0; i+size <= len(cur) && tries < maxTries; {
				allZero := true
				for _, v := range cur[i : i+size] {
					if v != 0 {
						allZero = false
						break
					}
				}
				if !allZero {
					cand := append([]uint32(nil), cur...)
					for j := i; j < i+size; j++ {
						cand[j] = 0
					}
					if ok(cand) {
						cur = trim(cand)
						improved = true
						continue
					}
				}
				cand := append(append([]uint32(nil), cur[:i]...), cur[i+size:]...)
				if ok(cand) {
					cur = trim(cand)
					improved = true
					continue
				}
				i += size
			}
		}
		// 4. lower single values
		for i := 0; i < len(cur) && tries < maxTries; i++ {
			for cur[i] > 0 && tries < maxTries {
				cand := append([]uint32(nil), cur...)
				cand[i] = cur[i] / 2
				if ok(cand) {
					cur = trim(cand)
					improved = true
					if i >= len(cur) {
						break
					}
					continue
				}
				if cur[i] > 1 {
					cand[i] = cur[i] - 1
					if ok(cand) {
						cur = trim(cand)
						improved = true
						if i >= len(cur) {
							break
						}
						continue
					}
				}
				break
			}
		}
	}
	return best, tries
}

// ---- replay files -------------------------------------------------------------------

type ReplayFile struct {
	Property string                 `json:"property"`
	Variant  string                 `json:"variant"`
	Engine   string                 `json:"engine"`
	Seed     uint64                 `json:"seed"`
	Run      uint64                 `json:"run"`
	Tier     string                 `json:"tier"`
	Config   map[string]interface{} `json:"config"`
	Tape     []uint32               `json:"tape"`
	// Search: the run is reproduced from (seed, run) with the generating tape
	// (used for hangs, where no consumed tape could be recorded).
	Search    bool          `json:"search,omitempty"`
	OrigLen   int           `json:"original_tape_len"`
	Shrinks   int           `json:"shrink_replays"`
	Violation sim.Violation `json:"violation"`
	LogHash   string        `json:"event_log_sha256"`
	Trace     []string      `json:"trace"`
	GoVersion string        `json:"go_version"`
}

// ---- known findings -----------------------------------------------------------------

type Known struct {
	Property string `json:"property"`
	Status   string `json:"status"` // "known" suppresses; "fixed" suppresses nothing
	Class    string `json:"class_regex"`
	Detail   string `json:"detail_regex"`
	What     string `json:"what"`
	Commit   string `json:"commit,omitempty"`
	reC, reD *regexp.Regexp
}

func loadKnown(path, prop string) []*Known {
	var out []*Known
	b, err := os.ReadFile(path)
	if err != nil {
		return nil
	}
	var doc struct {
		Findings []*Known `json:"findings"`
	}
	if json.Unmarshal(b, &doc) != nil {
		return nil
	}
	for _, k := range doc.Findings {
		if k.Property != prop || k.Status != "known" {
			continue
		}
		k.reC = regexp.MustCompile(k.Class)
		if k.Detail != "" {
			k.reD = regexp.MustCompile(k.Detail)
		}
		out = append(out, k)
	}
	return out
}

func matchKnown(ks []*Known, v sim.Violation) *Known {
	for _, k := range ks {
		if k.reC.MatchString(v.Class) && (k.reD == nil || k.reD.MatchString(v.Detail)) {
			return k
		}
	}
	return nil
}

// ---- worker main --------------------------------------------------------------------

type Report struct {
	Property    string                   `json:"property"`
	Worker      int                      `json:"worker"`
	Engine      string                   `json:"engine"`
	Seed        uint64                   `json:"seed"`
	Runs        int64                    `json:"runs"`
	Evals       int64                    `json:"evals"`
	Reached     int64                    `json:"reached"`
	Nontrivial  int64                    `json:"nontrivial"`
	Steps       uint64                   `json:"steps"`
	VTimeNs     int64                    `json:"vtime_ns"`
	WallS       float64                  `json:"wall_s"`
	Counters    map[string]int64         `json:"counters"`
	Features    map[string]int64         `json:"features"`
	Strategies  map[string]int64         `json:"strategies"`
	Hashes      []string                 `json:"hashes"`    // distinct event logs (all runs)
	NTHashes    []string                 `json:"nt_hashes"` // distinct event logs among reached+nontrivial runs
	Samples     []map[string]interface{} `json:"samples"`
	Violations  []map[string]interface{} `json:"violations"`
	Known       []map[string]interface{} `json:"known"`
	HarnessErrs []string                 `json:"harness_errors"`
	Leaks       int64                    `json:"leaks"`
	RunLog      []string                 `json:"runlog,omitempty"`
	LeakSample  string                   `json:"leak_sample,omitempty"`
}

func envU(name string, def uint64) uint64 {
	if v := os.Getenv(name); v != "" {
		if x, err := strconv.ParseUint(v, 10, 64); err == nil {
			return x
		}
	}
	return def
}

// Main is called from the engine's single Test function.
func Main(t *testing.T, env *Env, props map[string]*Prop) {
	id := os.Getenv("VERIF_PROP")
	p := props[id]
	if p == nil {
		var ids []string
		for k := range props {
			ids = append(ids, k)
		}
		sort.Strings(ids)
		fmt.Printf("HARNESS-ERROR unknown VERIF_PROP %q (have %v)\n", id, ids)
		os.Exit(2)
	}
	debug.SetGCPercent(200)
	tier := os.Getenv("VERIF_TIER")
	if tier == "" {
		tier = "quick"
	}
	startWatchdog()
	if rf := os.Getenv("VERIF_REPLAY"); rf != "" {
		replayMain(t, env, p, rf, tier)
		return
	}
	seed := envU("VERIF_SEED", 1)
	from := envU("VERIF_FROM", 0)
	stride := envU("VERIF_STRIDE", 1)
	budget := time.Duration(envU("VERIF_BUDGET_S", 20)) * time.Second
	maxRuns := envU("VERIF_MAXRUNS", 1<<62)
	outPath := os.Getenv("VERIF_OUT")
	replayDir := os.Getenv("VERIF_REPLAY_DIR")
	known := loadKnown(os.Getenv("VERIF_KNOWN"), id)
	maxViol := int(envU("VERIF_MAXVIOL", 1))

	rep := &Report{Property: id, Worker: int(from), Engine: os.Getenv("VERIF_ENGINE"), Seed: seed, Counters: map[string]int64{}, Features: map[string]int64{}, Strategies: map[string]int64{}}
	hashes := map[string]bool{}
	nth := map[string]bool{}
	wdMu.Lock()
	wdReport, wdProp, wdSeed, wdTier, wdOut, wdDir = rep, p, seed, tier, outPath, replayDir
	wdMu.Unlock()
	knownSeen := map[string]bool{}
	start := time.Now()
	var n uint64
	wdMu.Lock()
	wdFinalize = func() {
		// (called by the watchdog with wdMu held, while the main loop is stuck)
		rep.WallS = time.Since(start).Seconds()
		for h := range hashes {
			rep.Hashes = append(rep.Hashes, h)
		}
		for h := range nth {
			rep.NTHashes = append(rep.NTHashes, h)
		}
		b, _ := json.Marshal(rep)
		if outPath != "" {
			os.WriteFile(outPath, b, 0o644)
		} else {
			os.Stdout.Write(b)
		}
	}
	wdMu.Unlock()
	for run := from; n < maxRuns && time.Since(start) < budget; run += stride {
		n++
		wdMu.Lock()
		wdRun = run
		wdMu.Unlock()
		wantTrace := len(rep.Samples) < 3
		r := RunOnce(t, env, p, seed, run, nil, false, wantTrace, tier)
		rep.Runs++
		rep.Steps += r.Steps
		rep.VTimeNs += r.VTimeNs
		for k, v := range r.Counters {
			rep.Counters[k] += v
		}
		for k, v := range r.Features {
			rep.Features[k] += v
		}
		rep.Strategies[r.Strategy]++
		if r.Reached {
			rep.Reached++
		}
		if r.Exhausted {
			rep.Counters["runs_step_budget_exhausted"]++
		}
		h := r.LogHash
		if len(h) > 16 {
			h = h[:16]
		}
		hashes[h] = true
		if os.Getenv("VERIF_RUNLOG") != "" {
			rep.RunLog = append(rep.RunLog, fmt.Sprintf("%d %s %d", run, h, r.Steps))
		}
		if r.Evals > 0 {
			rep.Evals += r.Evals
		} else {
			rep.Evals++
		}
		if r.Reached && r.Nontrivial {
			rep.Nontrivial++
			if len(r.Cases) > 0 {
				for _, cs := range r.Cases {
					nth[cs] = true
				}
			} else {
				nth[h] = true
			}
		}
		if r.Leak != "" {
			rep.Leaks++
			if rep.LeakSample == "" {
				rep.LeakSample = fmt.Sprintf("seed=%d run=%d: %s", seed, run, r.Leak)
			}
		}
		if r.Harness != "" {
			rep.HarnessErrs = append(rep.HarnessErrs, fmt.Sprintf("seed=%d run=%d: %s", seed, run, r.Harness))
			if len(rep.HarnessErrs) > 3 {
				break
			}
			continue
		}
		if wantTrace {
			tr := r.Trace
			if len(tr) > 60 && os.Getenv("VERIF_FULLTRACE") == "" {
				tr = append(append([]string(nil), tr[:40]...), "...", tr[len(tr)-1])
			}
			rep.Samples = append(rep.Samples, map[string]interface{}{"seed": seed, "run": run, "config": r.Info, "strategy": r.Strategy,
				"steps": r.Steps, "vtime_ns": r.VTimeNs, "verdict": verdict(r), "tape_len": len(r.Tape), "trace_head": tr})
		}
		if len(r.Violations) > 0 {
			if k := matchKnown(known, r.Violations[0]); k != nil {
				if !knownSeen[k.What] {
					knownSeen[k.What] = true
					path := writeReplay(t, env, p, r, replayDir, tier, true)
					rep.Known = append(rep.Known, map[string]interface{}{"what": k.What, "class": r.Class(), "replay": path, "seed": seed, "run": run})
				}
				rep.Counters["known_finding_runs"]++
				continue
			}
			path := writeReplay(t, env, p, r, replayDir, tier, true)
			rep.Violations = append(rep.Violations, map[string]interface{}{"class": r.Class(), "detail": r.Violations[0].Detail, "replay": path, "seed": seed, "run": run})
			if len(rep.Violations) >= maxViol {
				break
			}
		}
	}
	finalize := func() {
		rep.WallS = time.Since(start).Seconds()
		rep.Hashes, rep.NTHashes = nil, nil
		for h := range hashes {
			rep.Hashes = append(rep.Hashes, h)
		}
		for h := range nth {
			rep.NTHashes = append(rep.NTHashes, h)
		}
		sort.Strings(rep.Hashes)
		sort.Strings(rep.NTHashes)
		b, _ := json.Marshal(rep)
		if outPath != "" {
			if err := os.WriteFile(outPath, b, 0o644); err != nil {
				fmt.Printf("HARNESS-ERROR cannot write %s: %v\n", outPath, err)
				os.Exit(2)
			}
		} else {
			os.Stdout.Write(b)
			fmt.Println()
		}
	}
	wdMu.Lock()
	wdFinalize = nil
	wdMu.Unlock()
	finalize()
}

func verdict(r *Result) string {
	if len(r.Violations) > 0 {
		return "violation:" + r.Class()
	}
	return "held"
}

// writeReplay shrinks (optionally) and writes the replay file; returns its path.
func writeReplay(t *testing.T, env *Env, p *Prop, r *Result, dir, tier string, shrink bool) string {
	best := r
	tries := 0
	if shrink {
		best, tries = Shrink(func(vals []uint32) *Result {
			return RunOnce(t, env, p, r.Seed, r.Run, vals, true, false, tier)
		}, r, int(envU("VERIF_SHRINK_TRIES", 3000)))
	}
	// final traced replay of the minimised tape
	final := RunOnce(t, env, p, r.Seed, r.Run, best.Tape, true, true, tier)
	if final.Class() != r.Class() {
		// shrinking produced something unstable; fall back to the original
		final = RunOnce(t, env, p, r.Seed, r.Run, r.Tape, true, true, tier)
	}
	rf := &ReplayFile{Property: p.ID, Variant: p.Variant, Engine: os.Getenv("VERIF_ENGINE"), Seed: r.Seed, Run: r.Run, Tier: tier, Config: final.Info, Tape: trimZeros(final.Tape),
		OrigLen: len(r.Tape), Shrinks: tries, LogHash: final.LogHash, Trace: final.Trace, GoVersion: runtime.Version()}
	if len(final.Violations) > 0 {
		rf.Violation = final.Violations[0]
	} else if len(r.Violations) > 0 {
		rf.Violation = r.Violations[0]
		rf.Violation.Detail += "\n(NOT reproduced when replayed in-process)"
	}
	if dir == "" {
		dir = "."
	}
	os.MkdirAll(dir, 0o755)
	path := filepath.Join(dir, fmt.Sprintf("%s-%d-%d.json", p.ID, r.Seed, r.Run))
	b, _ := json.MarshalIndent(rf, "", " ")
	os.WriteFile(path, b, 0o644)
	return path
}

func trimZeros(v []uint32) []uint32 {
	n := len(v)
	for n > 0 && v[n-1] == 0 {
		n--
	}
	return v[:n]
}

func replayMain(t *testing.T, env *Env, p *Prop, path, tier string) {
	b, err := os.ReadFile(path)
	if err != nil {
		fmt.Printf("HARNESS-ERROR cannot read replay %s: %v\n", path, err)
		os.Exit(2)
	}
	var rf ReplayFile
	if err := json.Unmarshal(b, &rf); err != nil {
		fmt.Printf("HARNESS-ERROR bad replay file %s: %v\n", path, err)
		os.Exit(2)
	}
	if rf.Tier != "" {
		tier = rf.Tier
	}
	wdMu.Lock()
	wdOut = os.Getenv("VERIF_OUT")
	if rf.Search {
		wdReplay = &rf
	}
	wdMu.Unlock()
	var r *Result
	if rf.Search {
		r = RunOnce(t, env, p, rf.Seed, rf.Run, nil, false, true, tier)
	} else {
		r = RunOnce(t, env, p, rf.Seed, rf.Run, rf.Tape, true, true, tier)
	}
	out := map[string]interface{}{
		"property":       p.ID,
		"expected_class": rf.Violation.Class,
		"class":          r.Class(),
		"expected_hash":  rf.LogHash,
		"hash":           r.LogHash,
		"reproduced":     r.Class() == rf.Violation.Class && r.Class() != "",
		"identical_log":  r.LogHash == rf.LogHash,
		"harness_error":  r.Harness,
	}
	if len(r.Violations) > 0 {
		out["detail"] = r.Violations[0].Detail
	}
	if os.Getenv("VERIF_TRACE") != "" {
		out["trace"] = r.Trace
	}
	jb, _ := json.Marshal(out)
	if outPath := os.Getenv("VERIF_OUT"); outPath != "" {
		os.WriteFile(outPath, jb, 0o644)
	} else {
		os.Stdout.Write(jb)
		fmt.Println()
	}
}

// startWatchdog aborts the process when one run makes no progress for a long
// wall-clock time (a task that never yields: spin candidate, or a harness
// fault).  It lives outside every bubble.
// state the watchdog needs to turn a hang into a report
var (
	wdMu       sync.Mutex
	wdReport   *Report
	wdProp     *Prop
	wdSeed     uint64
	wdRun      uint64
	wdTier     string
	wdOut      string
	wdDir      string
	wdReplay   *ReplayFile // set in replay mode
	wdFinalize func()
)

var reGoroutine = regexp.MustCompile(`(?m)^goroutine \d+ \[([^\]]*)\]:$`)

// classifyHang looks for a goroutine that is running or runnable inside the
// code under test: a task that was released and never yielded or blocked.
func classifyHang(stack string) (class, excerpt string) {
	blocks := strings.Split(stack, "\n\n")
	for _, b := range blocks {
		m := reGoroutine.FindStringSubmatch(b)
		if m == nil {
			continue
		}
		state := m[1]
		if !(strings.HasPrefix(state, "running") || strings.HasPrefix(state, "runnable")) || !strings.Contains(state, "synctest bubble") {
			continue
		}
		fr := sim.TopRepoFrame([]byte(b))
		if fr == "?" {
			continue
		}
		return "spin/task-never-yields@" + fr, sim.TrimStack([]byte(b))
	}
	return "", ""
}

// startWatchdog aborts the process when no scheduler decision has been made
// for a long wall-clock time: a released task never yields or blocks (a busy
// loop in the code under test, reported as a violation with a search-mode
// replay file), or a harness fault (exit 3).  It lives outside every bubble.
func startWatchdog() {
	limit := time.Duration(envU("VERIF_WATCHDOG_S", 30)) * time.Second
	go func() {
		last := ""
		var lastProg uint64
		since := time.Now()
		runName, runSince := "", time.Now()
		runLimit := time.Duration(envU("VERIF_RUN_WALL_S", 180)) * time.Second
		for {
			time.Sleep(time.Second)
			cur, _ := curRun.Load().(string)
			prog := sim.Progress.Load()
			// a run that keeps making decisions but has used several minutes of
			// wall clock is cut short (counted like a run out of steps)
			if cur != runName {
				runName, runSince = cur, time.Now()
				sim.WallExpired.Store(false)
			} else if cur != "" && time.Since(runSince) > runLimit+time.Duration(sim.RunWallExtra.Load())*time.Second {
				sim.WallExpired.Store(true)
			}
			if cur != last || prog != lastProg {
				last, lastProg = cur, prog
				since = time.Now()
				continue
			}
			if cur == "" || time.Since(since) <= limit {
				continue
			}
			buf := make([]byte, 4<<20)
			n := runtime.Stack(buf, true)
			class, excerpt := classifyHang(string(buf[:n]))
			wdMu.Lock()
			if wdReplay != nil {
				out := map[string]interface{}{"property": wdReplay.Property, "expected_class": wdReplay.Violation.Class, "class": class,
					"reproduced": class != "" && class == wdReplay.Violation.Class, "identical_log": false, "detail": excerpt, "harness_error": ""}
				jb, _ := json.Marshal(out)
				if wdOut != "" {
					os.WriteFile(wdOut, jb, 0o644)
				} else {
					fmt.Println(string(jb))
				}
				os.Exit(0)
			}
			if class == "" || wdReport == nil {
				fmt.Printf("WATCHDOG %s: no scheduler decision for %v\n%s\n", cur, limit, buf[:n])
				os.Exit(3)
			}
			detail := fmt.Sprintf("no scheduler decision for %v of wall-clock time: a task was released and has neither yielded, blocked nor returned since (busy loop).\n%s", limit, excerpt)
			rf := &ReplayFile{Property: wdProp.ID, Variant: wdProp.Variant, Engine: os.Getenv("VERIF_ENGINE"), Seed: wdSeed, Run: wdRun, Tier: wdTier, Search: true,
				Violation: sim.Violation{Class: class, Detail: detail}, GoVersion: runtime.Version()}
			dir := wdDir
			if dir == "" {
				dir = "."
			}
			os.MkdirAll(dir, 0o755)
			path := filepath.Join(dir, fmt.Sprintf("%s-%d-%d.json", wdProp.ID, wdSeed, wdRun))
			jb, _ := json.MarshalIndent(rf, "", " ")
			os.WriteFile(path, jb, 0o644)
			wdReport.Violations = append(wdReport.Violations, map[string]interface{}{"class": class, "detail": detail, "replay": path, "seed": wdSeed, "run": wdRun})
			if wdFinalize != nil {
				wdFinalize()
			}
			os.Exit(0)
		}
	}()
}
