package harness

import (
	"encoding/binary"
	"sync/atomic"
)

// SteeredSource is a math/rand Source for the code under test's "random
// integer in a range" helper.  It draws the same 8 bytes from the simulated
// entropy as an unbiased source would; in a quarter of the draws it then moves
// the 31 bits that math/rand's Intn looks at to the nearest value congruent to
// -1 or 0 modulo one of the given range sizes (and their neighbours), so that
// "lands on the top (bottom) of the range" - padding lengths at their limits -
// is a frequent event rather than a 1-in-8000 one.  Any value is a legitimate
// output of a random source; the range sizes come from the protocol documents,
// not from the code.
type SteeredSource struct {
	read func([]byte) error
	mods []int64
	hits int64
}

func NewSteeredSource(read func([]byte) error, ranges ...int) *SteeredSource {
	s := &SteeredSource{read: read}
	for _, r := range ranges {
		s.mods = append(s.mods, int64(r), int64(r+1), int64(r-1))
	}
	return s
}

func (s *SteeredSource) Seed(int64) {}

func (s *SteeredSource) Hits() int64 { return atomic.LoadInt64(&s.hits) }

func (s *SteeredSource) Int63() int64 {
	var b [8]byte
	if err := s.read(b[:]); err != nil {
		panic(err)
	}
	v := int64(binary.BigEndian.Uint64(b[:]) & (1<<63 - 1))
	k := b[7] & 7
	if k > 1 || len(s.mods) == 0 {
		return v
	}
	m := s.mods[int(b[6])%len(s.mods)]
	hi := v >> 32
	hi -= hi % m // a multiple of m
	if k == 0 {
		hi += m - 1
	}
	for hi > 1<<31-1 {
		hi -= m
	}
	atomic.AddInt64(&s.hits, 1)
	return hi<<32 | v&(1<<32-1)
}
