// Package simos stands in for "os" in the files of the repository that touch
// the file system (statefile.go, handshake_ticket.go): an in-memory disk whose
// every mutating call is one or more *disk steps*.  A crash scheduled at step
// j unwinds the caller with a private panic; what remains on the disk is the
// kill model: every completed step persists, the step in progress persists a
// k-byte prefix (torn write).  Errors (EIO, ENOSPC) can be injected at a step
// instead.  Outside a simulation every call falls through to the real os.
package simos

import (
	"fmt"
	"io"
	"os"
	"sort"
	"strconv"
	"sync"
	"sync/atomic"
	"syscall"
)

// Re-exported identifiers (only what the redirected files and plausible
// repairs of them use).
type (
	FileMode  = os.FileMode
	FileInfo  = os.FileInfo
	PathError = os.PathError
)

const (
	O_RDONLY = os.O_RDONLY
	O_WRONLY = os.O_WRONLY
	O_RDWR   = os.O_RDWR
	O_APPEND = os.O_APPEND
	O_CREATE = os.O_CREATE
	O_EXCL   = os.O_EXCL
	O_SYNC   = os.O_SYNC
	O_TRUNC  = os.O_TRUNC

	ModePerm = os.ModePerm
)

var (
	ErrNotExist = os.ErrNotExist
	ErrExist    = os.ErrExist
	ErrClosed   = os.ErrClosed
	Stdin       = os.Stdin
	Stdout      = os.Stdout
	Stderr      = os.Stderr
)

func IsNotExist(err error) bool { return os.IsNotExist(err) }
func IsExist(err error) bool    { return os.IsExist(err) }
func Getenv(k string) string    { return os.Getenv(k) }
func Getpid() int               { return os.Getpid() }

// Crash is the private panic value that unwinds a "killed process".
type Crash struct {
	Step int
	Op   string
}

func (c Crash) String() string {
	return fmt.Sprintf("simulated kill at disk step %d (%s)", c.Step, c.Op)
}

type StepRec struct {
	N    int    `json:"n"`
	Op   string `json:"op"`
	Path string `json:"path"`
	Len  int    `json:"len,omitempty"`
}

// Disk is the simulated file system.
type Disk struct {
	mu    sync.Mutex
	files map[string][]byte
	step  int
	Steps []StepRec

	// fault plan for the steps to come (counted from ArmAt)
	CrashAt  int // -1: never
	TornSel  int // for a write step: 0 => nothing, 1 => 1 byte, 2 => half, 3 => len-1, 4 => all, >=5 => (TornSel-5) % (len+1)
	ErrAt    int // -1: never
	ErrKind  error
	Fired    map[string]int
	tmpCount int

	// read faults: the ReadErrAt-th read of an existing file since ResetPlan
	// fails with ReadErrKind (0: never).  Reads are not steps: they change nothing.
	ReadErrAt   int
	ReadErrKind error
	reads       int
	Reads       []string
}

func NewDisk() *Disk {
	return &Disk{files: map[string][]byte{}, CrashAt: -1, ErrAt: -1, Fired: map[string]int{}}
}

var active atomic.Pointer[Disk]

func Activate(d *Disk) { active.Store(d) }
func Deactivate()      { active.Store(nil) }

// ResetPlan clears the fault plan and restarts step counting.
func (d *Disk) ResetPlan() {
	d.mu.Lock()
	d.step, d.CrashAt, d.ErrAt, d.Steps = 0, -1, -1, nil
	d.reads, d.ReadErrAt, d.Reads = 0, 0, nil
	d.mu.Unlock()
}

// StepCount is the number of mutating steps since ResetPlan.
func (d *Disk) StepCount() int {
	d.mu.Lock()
	defer d.mu.Unlock()
	return d.step
}

// Snapshot returns a copy of the disk contents.
func (d *Disk) Snapshot() map[string][]byte {
	d.mu.Lock()
	defer d.mu.Unlock()
	out := map[string][]byte{}
	for k, v := range d.files {
		out[k] = append([]byte(nil), v...)
	}
	return out
}

// Restore replaces the disk contents.
func (d *Disk) Restore(snap map[string][]byte) {
	d.mu.Lock()
	defer d.mu.Unlock()
	d.files = map[string][]byte{}
	for k, v := range snap {
		d.files[k] = append([]byte(nil), v...)
	}
}

func (d *Disk) Names() []string {
	d.mu.Lock()
	defer d.mu.Unlock()
	var out []string
	for k := range d.files {
		out = append(out, k)
	}
	sort.Strings(out)
	return out
}

func (d *Disk) Get(path string) ([]byte, bool) {
	d.mu.Lock()
	defer d.mu.Unlock()
	v, ok := d.files[path]
	return append([]byte(nil), v...), ok
}

func (d *Disk) Put(path string, data []byte) {
	d.mu.Lock()
	d.files[path] = append([]byte(nil), data...)
	d.mu.Unlock()
}

func (d *Disk) Delete(path string) {
	d.mu.Lock()
	delete(d.files, path)
	d.mu.Unlock()
}

func tornLen(sel, n int) int {
	switch {
	case sel <= 0:
		return 0
	case sel == 1:
		if n < 1 {
			return n
		}
		return 1
	case sel == 2:
		return n / 2
	case sel == 3:
		if n == 0 {
			return 0
		}
		return n - 1
	case sel == 4:
		return n
	}
	return (sel - 5) % (n + 1)
}

// begin registers one mutating step.  It returns (crash, err): crash means
// the process dies at this step (the caller applies a torn prefix first when
// the step is a write), err is an injected error.
func (d *Disk) begin(op, path string, n int) (crash bool, err error) {
	d.step++
	d.Steps = append(d.Steps, StepRec{N: d.step, Op: op, Path: path, Len: n})
	if d.CrashAt >= 0 && d.step == d.CrashAt {
		d.Fired["crash@"+op]++
		return true, nil
	}
	if d.ErrAt >= 0 && d.step == d.ErrAt {
		d.Fired[errName(d.ErrKind)+"@"+op]++
		return false, d.ErrKind
	}
	return false, nil
}

func errName(e error) string {
	switch e {
	case syscall.EIO:
		return "EIO"
	case syscall.ENOSPC:
		return "ENOSPC"
	case syscall.EACCES:
		return "EACCES"
	}
	return "err"
}

func (d *Disk) die(op string) {
	step := d.step
	d.mu.Unlock()
	panic(Crash{Step: step, Op: op})
}

// ---- the os API -------------------------------------------------------------

func ReadFile(name string) ([]byte, error) {
	d := active.Load()
	if d == nil {
		return os.ReadFile(name)
	}
	d.mu.Lock()
	defer d.mu.Unlock()
	v, ok := d.files[name]
	if !ok {
		return nil, &os.PathError{Op: "open", Path: name, Err: syscall.ENOENT}
	}
	if err := d.readFault(name); err != nil {
		return nil, err
	}
	return append([]byte(nil), v...), nil
}

// readFault counts one read of an existing file and fails it if planned.
func (d *Disk) readFault(name string) error {
	d.reads++
	d.Reads = append(d.Reads, name)
	if d.ReadErrAt > 0 && d.reads == d.ReadErrAt {
		d.Fired[errName(d.ReadErrKind)+"@read"]++
		op := "read"
		if d.ReadErrKind == syscall.EACCES {
			op = "open"
		}
		return &os.PathError{Op: op, Path: name, Err: d.ReadErrKind}
	}
	return nil
}

func WriteFile(name string, data []byte, perm FileMode) error {
	d := active.Load()
	if d == nil {
		return os.WriteFile(name, data, perm)
	}
	f, err := OpenFile(name, O_WRONLY|O_CREATE|O_TRUNC, perm)
	if err != nil {
		return err
	}
	_, err = f.Write(data)
	if err1 := f.Close(); err1 != nil && err == nil {
		err = err1
	}
	return err
}

type File struct {
	real   *os.File
	d      *Disk
	name   string
	closed bool
	rdOnly bool
	off    int
	app    bool
}

func OpenFile(name string, flag int, perm FileMode) (*File, error) {
	d := active.Load()
	if d == nil {
		f, err := os.OpenFile(name, flag, perm)
		if err != nil {
			return nil, err
		}
		return &File{real: f}, nil
	}
	d.mu.Lock()
	_, exists := d.files[name]
	if flag&(O_WRONLY|O_RDWR) == 0 {
		if !exists {
			d.mu.Unlock()
			return nil, &os.PathError{Op: "open", Path: name, Err: syscall.ENOENT}
		}
		err := d.readFault(name)
		d.mu.Unlock()
		if err != nil {
			return nil, err
		}
		return &File{d: d, name: name, rdOnly: true}, nil
	}
	if !exists && flag&O_CREATE == 0 {
		d.mu.Unlock()
		return nil, &os.PathError{Op: "open", Path: name, Err: syscall.ENOENT}
	}
	if exists && flag&O_EXCL != 0 && flag&O_CREATE != 0 {
		d.mu.Unlock()
		return nil, &os.PathError{Op: "open", Path: name, Err: syscall.EEXIST}
	}
	if !exists || flag&O_TRUNC != 0 {
		op := "create"
		if exists {
			op = "truncate"
		}
		crash, err := d.begin(op, name, 0)
		if crash {
			d.die(op)
		}
		if err != nil {
			d.mu.Unlock()
			return nil, &os.PathError{Op: "open", Path: name, Err: err}
		}
		d.files[name] = nil
	}
	f := &File{d: d, name: name, app: flag&O_APPEND != 0}
	if f.app {
		f.off = len(d.files[name])
	}
	d.mu.Unlock()
	return f, nil
}

func Create(name string) (*File, error) { return OpenFile(name, O_RDWR|O_CREATE|O_TRUNC, 0o666) }
func Open(name string) (*File, error)   { return OpenFile(name, O_RDONLY, 0) }

func CreateTemp(dir, pattern string) (*File, error) {
	d := active.Load()
	if d == nil {
		f, err := os.CreateTemp(dir, pattern)
		if err != nil {
			return nil, err
		}
		return &File{real: f}, nil
	}
	if dir == "" {
		dir = "/tmp"
	}
	d.mu.Lock()
	d.tmpCount++
	suffix := strconv.Itoa(100000 + d.tmpCount)
	name := pattern + suffix
	for i := len(pattern) - 1; i >= 0; i-- {
		if pattern[i] == '*' {
			name = pattern[:i] + suffix + pattern[i+1:]
			break
		}
	}
	path := dir + "/" + name
	d.mu.Unlock()
	return OpenFile(path, O_RDWR|O_CREATE|O_EXCL, 0o600)
}

func (f *File) Name() string {
	if f.real != nil {
		return f.real.Name()
	}
	return f.name
}

func (f *File) Write(p []byte) (int, error) {
	if f.real != nil {
		return f.real.Write(p)
	}
	d := f.d
	d.mu.Lock()
	if f.closed {
		d.mu.Unlock()
		return 0, &os.PathError{Op: "write", Path: f.name, Err: os.ErrClosed}
	}
	if f.rdOnly {
		d.mu.Unlock()
		return 0, &os.PathError{Op: "write", Path: f.name, Err: syscall.EBADF}
	}
	crash, err := d.begin("write", f.name, len(p))
	n := len(p)
	if crash || err != nil {
		n = tornLen(d.TornSel, len(p))
	}
	cur := d.files[f.name]
	if f.app {
		f.off = len(cur)
	}
	for len(cur) < f.off {
		cur = append(cur, 0)
	}
	cur = append(cur[:f.off], append(append([]byte(nil), p[:n]...), tail(cur, f.off+n)...)...)
	d.files[f.name] = cur
	f.off += n
	if crash {
		d.die("write")
	}
	d.mu.Unlock()
	if err != nil {
		return n, &os.PathError{Op: "write", Path: f.name, Err: err}
	}
	return n, nil
}

func tail(b []byte, from int) []byte {
	if from >= len(b) {
		return nil
	}
	return b[from:]
}

func (f *File) WriteString(s string) (int, error) { return f.Write([]byte(s)) }

func (f *File) Read(p []byte) (int, error) {
	if f.real != nil {
		return f.real.Read(p)
	}
	d := f.d
	d.mu.Lock()
	defer d.mu.Unlock()
	cur := d.files[f.name]
	if f.off >= len(cur) {
		return 0, errEOF
	}
	n := copy(p, cur[f.off:])
	f.off += n
	return n, nil
}

var errEOF = io.EOF

func (f *File) Sync() error {
	if f.real != nil {
		return f.real.Sync()
	}
	d := f.d
	d.mu.Lock()
	crash, err := d.begin("fsync", f.name, 0)
	if crash {
		d.die("fsync")
	}
	d.mu.Unlock()
	if err != nil {
		return &os.PathError{Op: "sync", Path: f.name, Err: err}
	}
	return nil
}

func (f *File) Chmod(mode FileMode) error {
	if f.real != nil {
		return f.real.Chmod(mode)
	}
	return nil
}

func (f *File) Close() error {
	if f.real != nil {
		return f.real.Close()
	}
	f.d.mu.Lock()
	defer f.d.mu.Unlock()
	if f.closed {
		return &os.PathError{Op: "close", Path: f.name, Err: os.ErrClosed}
	}
	f.closed = true
	return nil
}

func Rename(oldpath, newpath string) error {
	d := active.Load()
	if d == nil {
		return os.Rename(oldpath, newpath)
	}
	d.mu.Lock()
	v, ok := d.files[oldpath]
	if !ok {
		d.mu.Unlock()
		return &os.LinkError{Op: "rename", Old: oldpath, New: newpath, Err: syscall.ENOENT}
	}
	crash, err := d.begin("rename", oldpath+" -> "+newpath, 0)
	if crash {
		d.die("rename")
	}
	if err != nil {
		d.mu.Unlock()
		return &os.LinkError{Op: "rename", Old: oldpath, New: newpath, Err: err}
	}
	d.files[newpath] = v
	delete(d.files, oldpath)
	d.mu.Unlock()
	return nil
}

func Remove(name string) error {
	d := active.Load()
	if d == nil {
		return os.Remove(name)
	}
	d.mu.Lock()
	if _, ok := d.files[name]; !ok {
		d.mu.Unlock()
		return &os.PathError{Op: "remove", Path: name, Err: syscall.ENOENT}
	}
	crash, err := d.begin("remove", name, 0)
	if crash {
		d.die("remove")
	}
	if err != nil {
		d.mu.Unlock()
		return &os.PathError{Op: "remove", Path: name, Err: err}
	}
	delete(d.files, name)
	d.mu.Unlock()
	return nil
}

func MkdirAll(path string, perm FileMode) error {
	if active.Load() == nil {
		return os.MkdirAll(path, perm)
	}
	return nil
}

func Mkdir(path string, perm FileMode) error {
	if active.Load() == nil {
		return os.Mkdir(path, perm)
	}
	return nil
}

func Chmod(name string, mode FileMode) error {
	if active.Load() == nil {
		return os.Chmod(name, mode)
	}
	return nil
}

type fileInfo struct {
	name string
	size int64
}

func Stat(name string) (FileInfo, error) {
	d := active.Load()
	if d == nil {
		return os.Stat(name)
	}
	d.mu.Lock()
	defer d.mu.Unlock()
	if _, ok := d.files[name]; !ok {
		return nil, &os.PathError{Op: "stat", Path: name, Err: syscall.ENOENT}
	}
	return os.Stat("/") // a directory's info is good enough for existence checks
}
