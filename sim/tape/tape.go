// Package tape is the single source of every choice a simulated run makes.
//
// In search mode the tape is backed by a xoshiro256** generator initialised
// from (seed, run) and records every value handed out; in replay mode it is
// backed by a recorded list and hands out 0 ("the benign choice") past its
// end.  By convention 0 is always the simplest option (lowest task, no fault,
// whole burst, no delay), so a tape with more zeros / shorter length is a
// simpler execution; that is what the shrinker exploits.
package tape

import (
	"sync"
)

type Entry struct {
	Label string `json:"l"`
	N     uint32 `json:"n"`
	V     uint32 `json:"v"`
}

type Tape struct {
	mu     sync.Mutex
	replay bool
	src    []uint32 // replay mode
	pos    int
	s      [4]uint64 // search mode
	rec    []Entry
	limit  int
	Over   bool // more than limit draws were made (run should be abandoned)
}

func splitmix(x *uint64) uint64 {
	*x += 0x9e3779b97f4a7c15
	z := *x
	z = (z ^ (z >> 30)) * 0xbf58476d1ce4e5b9
	z = (z ^ (z >> 27)) * 0x94d049bb133111eb
	return z ^ (z >> 31)
}

// NewSearch returns a generating tape for (seed, run).
func NewSearch(seed, run uint64) *Tape {
	t := &Tape{limit: 4 << 20}
	x := seed*0x9e3779b97f4a7c15 ^ (run+1)*0xd1342543de82ef95
	for i := range t.s {
		t.s[i] = splitmix(&x)
	}
	return t
}

// NewReplay returns a tape that replays vals and then yields zeros.
func NewReplay(vals []uint32) *Tape {
	return &Tape{replay: true, src: vals, limit: 4 << 20}
}

func rotl(x uint64, k uint) uint64 { return (x << k) | (x >> (64 - k)) }

func (t *Tape) next() uint64 {
	s := &t.s
	r := rotl(s[1]*5, 7) * 9
	x := s[1] << 17
	s[2] ^= s[0]
	s[3] ^= s[1]
	s[1] ^= s[2]
	s[0] ^= s[3]
	s[2] ^= x
	s[3] = rotl(s[3], 45)
	return r
}

// Draw returns a value in [0,n).  n <= 1 returns 0 without consuming tape.
func (t *Tape) Draw(label string, n int) int {
	if n <= 1 {
		return 0
	}
	t.mu.Lock()
	defer t.mu.Unlock()
	var v uint32
	if t.replay {
		if t.pos < len(t.src) {
			v = t.src[t.pos] % uint32(n)
		}
		t.pos++
	} else {
		v = uint32(t.next()>>11) % uint32(n)
	}
	if len(t.rec) < t.limit {
		t.rec = append(t.rec, Entry{label, uint32(n), v})
	} else {
		t.Over = true
	}
	return int(v)
}

// Bool draws a coin that is true with probability 1/oneIn (false is benign).
func (t *Tape) Bool(label string, oneIn int) bool {
	return t.Draw(label, oneIn) == oneIn-1 && oneIn > 1
}

// Pick draws an index into a list of k alternatives.
func (t *Tape) Pick(label string, k int) int { return t.Draw(label, k) }

// Range draws from [lo,hi] inclusive; lo is the benign value.
func (t *Tape) Range(label string, lo, hi int) int {
	if hi <= lo {
		return lo
	}
	return lo + t.Draw(label, hi-lo+1)
}

// Recorded returns what was handed out so far (values as consumed).
func (t *Tape) Recorded() []Entry {
	t.mu.Lock()
	defer t.mu.Unlock()
	out := make([]Entry, len(t.rec))
	copy(out, t.rec)
	return out
}

// Values returns only the consumed values.
func (t *Tape) Values() []uint32 {
	t.mu.Lock()
	defer t.mu.Unlock()
	out := make([]uint32, len(t.rec))
	for i, e := range t.rec {
		out[i] = e.V
	}
	return out
}

func (t *Tape) Len() int {
	t.mu.Lock()
	defer t.mu.Unlock()
	return len(t.rec)
}
