#!/usr/bin/env python3
"""Produce the patched copy of $GOROOT/src/runtime/select.go for the overlay.

usage: patch.py <goroot> <outdir>   -> prints the overlay fragment as JSON
The anchor line must occur exactly once, otherwise exit 2 (build trouble)."""
import json, os, sys
goroot, out = sys.argv[1], sys.argv[2]
src = os.path.join(goroot, "src", "runtime", "select.go")
text = open(src).read()
anchor = "\t\tj := cheaprandn(uint32(norder + 1))\n"
if text.count(anchor) != 1:
    sys.stderr.write("rtpatch: anchor line not found exactly once in %s\n" % src)
    sys.exit(2)
patched = text.replace(anchor, anchor +
    "\t\tif verifSelectSeed != 0 && getg().bubble != nil {\n"
    "\t\t\tj = verifSelectPick(uint32(norder+1), i)\n"
    "\t\t}\n")
os.makedirs(out, exist_ok=True)
dst = os.path.join(out, "select.go")
if not os.path.exists(dst) or open(dst).read() != patched:
    open(dst, "w").write(patched)
here = os.path.dirname(os.path.abspath(__file__))
print(json.dumps({src: dst, os.path.join(goroot, "src", "runtime", "verif_seam.go"): os.path.join(here, "verif_seam.go")}))
