// Added to package runtime through the go command's -overlay by /verif
// (never written into GOROOT).  It is inert unless a simulation arms it:
// with verifSelectSeed == 0 (the default) select behaves exactly as stock.

package runtime

import _ "unsafe" // for go:linkname

// verifSelectSeed, when non-zero, makes select's poll order for goroutines
// inside a synctest bubble a function of (seed, case index) instead of the
// per-thread random generator, so that the choice among simultaneously ready
// cases is replayable.
//
//go:linkname verifSelectSeed
var verifSelectSeed uint32

func verifSelectPick(n uint32, i int) uint32 {
	x := verifSelectSeed*0x9e3779b1 + uint32(i+1)*0x85ebca6b
	x ^= x >> 16
	x *= 0x7feb352d
	x ^= x >> 15
	x *= 0x846ca68b
	x ^= x >> 16
	return x % n
}

// verifGoid returns the current goroutine's id.
//
//go:linkname verifGoid
func verifGoid() uint64 { return getg().goid }
